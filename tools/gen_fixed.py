#!/usr/bin/env python3
"""Regenerate the 'fixed' list of known_findings.json from /repo's fix: commits (hashes change
when history is rewritten) and tools/fixed_map.json (subject substring -> property, what failed)."""
import json, subprocess, os
here = os.path.dirname(os.path.abspath(__file__))
kf = os.path.join(here, "..", "known_findings.json")
k = json.load(open(kf))
fm = json.load(open(os.path.join(here, "fixed_map.json")))
log = subprocess.check_output(["git", "-C", "/repo", "log", "--reverse", "--format=%h %s", "--grep", "^fix:"]).decode().strip().split("\n")
fixed = []
for l in log:
    h, s = l.split(" ", 1)
    for key, (prop, desc) in fm.items():
        if key in s:
            fixed.append("fixed: property=%s %s %s" % (prop, h, desc))
            break
    else:
        raise SystemExit("no description for fix commit: " + l)
k["fixed"] = fixed
json.dump(k, open(kf, "w"), indent=1)
print(len(fixed), "fixed entries")
