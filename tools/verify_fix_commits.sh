#!/bin/bash
# For every "fix:" commit of /repo: check it out in a scratch worktree (outside /repo and /verif),
# run the pinned suite with the guard off, report pass counts; remove the worktree afterwards.
set -u
WT=/tmp/verif_fixcheck_wt
TD=/tmp/verif_fixcheck_target
OUT=${1:-/tmp/verif_fixcheck.log}
: > "$OUT"
# FROM=<commit>: only the fix commits after that commit
for c in $(git -C /repo log --reverse --format=%h --grep '^fix:' ${FROM:+$FROM..HEAD}); do
  git -C /repo worktree remove --force $WT 2>/dev/null
  git -C /repo worktree add -q --detach $WT $c || exit 2
  res=$(cd $WT && CARGO_TARGET_DIR=$TD cargo nextest run --workspace --no-fail-fast --tool-config-file pb:/w/lib/nextest.toml --profile pb --test-threads 8 --offline 2>&1 | grep -E "Summary|FAIL" | sort -u | tr '\n' ' ')
  echo "$c $(git -C /repo log -1 --format=%s $c | cut -c1-70) :: $res" | tee -a "$OUT"
done
git -C /repo worktree remove --force $WT
rm -rf $TD
