#!/usr/bin/env python3
"""tools/keep_seed.py <ID> <k> <name> '<needs>' '<suite result>' '<demo result>' '<caught by ...>' [missed...]
Copy a confirmed seeded change from the agent's output directory to /verif/seeded/<name>/ with meta.json."""
import json, os, shutil, sys
pid, k, name, needs, suite, demo, caught = sys.argv[1:8]
out = "/tmp/%s_%s_out" % (os.environ.get("SEEDPFX", "seed"), pid)
d = "/verif/seeded/%s" % name
os.makedirs(d, exist_ok=True)
shutil.copy("%s/variant%s.diff" % (out, k), d + "/patch.diff")
shutil.copy("%s/variant%s_demo.sh" % (out, k), d + "/demo.sh")
if os.path.exists("%s/variant%s_notes.md" % (out, k)):
    shutil.copy("%s/variant%s_notes.md" % (out, k), d + "/notes.md")
meta = {"breaks_property": pid, "source": "independent sub-agent given only the property text and a scratch worktree",
        "needs_to_manifest": needs, "suite_with_change": suite, "demonstration": demo,
        "checks_that_report_it": caught.split(), "how_run": "git -C /repo apply seeded/%s/patch.diff; ./check <ID> --tier quick; git -C /repo checkout -- ." % name}
json.dump(meta, open(d + "/meta.json", "w"), indent=1)
print("kept", d)
