#!/bin/bash
# tools/try_seed.sh <patch.diff> [IDs...] : apply a seeded change to the repository under test (/repo, or
# $VERIF_REPO), run the quick checks (all, or the listed ones), report which raise an alarm, and undo the change
# straight afterwards.
patch=$1; shift
ids="$@"
here="$(cd "$(dirname "$0")/.." && pwd)"
repo=${VERIF_REPO:-/repo}
[ -z "$ids" ] && ids=$(python3 -c "import json; print(' '.join(c['property_id'] for c in json.load(open('$here/MANIFEST.json'))['checks']))")
cd "$here"
git -C $repo diff --quiet || { echo "$repo is dirty"; exit 2; }
git -C $repo apply $patch || { echo "patch does not apply"; exit 2; }
trap 'git -C $repo checkout -- . ; git -C $repo clean -qfd src' EXIT
fired=""
tmp=${RUNALL_OUT:-/tmp}
for id in $ids; do
  timeout 900 ./check $id --tier ${TIER:-quick} > $tmp/verif_seedrun_$id.log 2>&1
  rc=$?
  if [ $rc -ne 0 ]; then fired="$fired $id(rc=$rc)"; fi
done
echo "FIRED:$fired"
for id in $ids; do grep -h -A2 "^VIOLATION" $tmp/verif_seedrun_$id.log | head -6; grep -h "MACHINERY" $tmp/verif_seedrun_$id.log | head -2; done
