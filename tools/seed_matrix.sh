#!/bin/bash
# apply every kept seed to /repo in turn, run the checks its meta.json names, report; /repo is restored after each
cd /verif
for d in seeded/*/; do
  n=$(basename $d)
  ids=$(python3 -c "import json; print(' '.join(json.load(open('$d/meta.json'))['checks_that_report_it']))")
  r=$(tools/try_seed.sh /verif/$d/patch.diff $ids 2>&1 | grep -E "^FIRED|does not apply|dirty" | head -1)
  echo "$n [$ids] => $r"
done
