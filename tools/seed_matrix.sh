#!/bin/bash
# apply every kept seed to the repository under test in turn, run the checks its meta.json names, report; the
# repository is restored after each. Works on /verif + /repo, or inside a `vp run --with-repo` snapshot
# (VERIF_REPO=$VP_RUN_REPO).
here="$(cd "$(dirname "$0")/.." && pwd)"
cd "$here"
for d in seeded/*/; do
  n=$(basename $d)
  ids=$(python3 -c "import json; print(' '.join(json.load(open('$d/meta.json'))['checks_that_report_it']))")
  r=$(tools/try_seed.sh $here/$d/patch.diff $ids 2>&1 | grep -E "^FIRED|does not apply|dirty" | head -1)
  echo "$n [$ids] => $r"
done
