#!/bin/bash
# tools/mk_seed_wt.sh [-p prefix] C01 ... : scratch worktrees of /repo HEAD for mutation agents (outside /repo and /verif)
prefix=seed
if [ "$1" = "-p" ]; then prefix=$2; shift 2; fi
for id in "$@"; do
  d=/tmp/${prefix}_$id
  git -C /repo worktree remove --force $d 2>/dev/null
  rm -rf $d ${d}_target ${d}_out
  git -C /repo worktree add -q --detach $d HEAD
  mkdir -p ${d}_out
  cp -r /repo/target ${d}_target
  echo "$d ready"
done
