#!/bin/bash
# run every registered quick (or thorough) check; print status and wall time per property
tier=${1:-quick}
cd "$(dirname "$0")/.."
out=${RUNALL_OUT:-/tmp}
for id in $(python3 -c "import json; print(' '.join(c['property_id'] for c in json.load(open('MANIFEST.json'))['checks']))"); do
  s=$(date +%s.%N)
  ./check $id --tier $tier > $out/verif_runall_$id.log 2>&1
  rc=$?
  e=$(date +%s.%N)
  printf "%s rc=%d %.1fs %s\n" $id $rc $(echo "$e - $s" | bc) "$(grep -c VIOLATION $out/verif_runall_$id.log) violations"
done
