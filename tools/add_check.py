#!/usr/bin/env python3
"""tools/add_check.py ID category engine 'level text' 'level note' 'technique' - add/replace a MANIFEST check"""
import json, sys
pid, cat, engine, text, note, tech = sys.argv[1:7]
m = json.load(open('/verif/MANIFEST.json'))
m["checks"] = [c for c in m["checks"] if c["property_id"] != pid]
m["checks"].append({"property_id": pid, "quick_cmd": "./check %s --tier quick" % pid,
  "thorough_cmd": "./check %s --tier thorough" % pid, "evidence_file": "evidence/%s.json" % pid,
  "replay_cmd_template": "./check %s --replay {path}" % pid, "engine": engine,
  "level_claimed": {"category": cat, "text": text, "design_ref": "DESIGN.md 3/%s" % pid},
  "level_note": note, "technique": tech})
m["checks"].sort(key=lambda c: c["property_id"])
for e in m.get("engines", []):
    if e["name"] == engine and pid not in e["serves_properties"]:
        e["serves_properties"].append(pid); e["serves_properties"].sort()
json.dump(m, open('/verif/MANIFEST.json', 'w'), indent=1)
