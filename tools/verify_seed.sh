#!/bin/bash
# tools/verify_seed.sh C01 1 : confirm an agent's seeded change in its scratch worktree:
# suite still passes (429), demo exits 1 with the changed binary and 0 with the unchanged one.
id=$1; k=$2; pfx=${SEEDPFX:-seed}
wt=/tmp/${pfx}_$id; out=/tmp/${pfx}_${id}_out; td=/tmp/${pfx}_${id}_target
cd $wt || exit 2
git checkout -q -- . ; git clean -qfd
git apply $out/variant$k.diff || { echo "PATCH DOES NOT APPLY"; exit 2; }
res=$(CARGO_TARGET_DIR=$td cargo nextest run --workspace --no-fail-fast --tool-config-file pb:/w/lib/nextest.toml --profile pb --test-threads 8 --offline 2>&1 | grep -E "Summary|^\s+FAIL" | sort -u | tr '\n' ' ')
echo "suite: $res"
CARGO_TARGET_DIR=$td cargo build --release --offline 2>&1 | grep -E "^error" | head -3
chmod +x $out/variant${k}_demo.sh
bash $out/variant${k}_demo.sh $td/release/delta > /tmp/seed_demo_changed.log 2>&1; rc1=$?
bash $out/variant${k}_demo.sh /verif/.build/target/release/delta > /tmp/seed_demo_orig.log 2>&1; rc0=$?
echo "demo: changed binary exit $rc1 (want 1), unchanged binary exit $rc0 (want 0)"
tail -3 /tmp/seed_demo_changed.log
git checkout -q -- . ; git clean -qfd
