#!/bin/bash
# tools/seed_matrix_subset.sh C04 C06 ... : like seed_matrix.sh, for the seeds whose reporting check is among the given ones
here="$(cd "$(dirname "$0")/.." && pwd)"
cd "$here"
for d in seeded/*/; do
  n=$(basename $d)
  ids=$(python3 -c "import json; print(' '.join(json.load(open('$d/meta.json'))['checks_that_report_it']))")
  hit=0; for w in "$@"; do case " $ids " in *" $w "*) hit=1;; esac; done
  [ $hit = 1 ] || continue
  r=$(tools/try_seed.sh $here/$d/patch.diff $ids 2>&1 | grep -E "^FIRED|does not apply|dirty" | head -1)
  echo "$n [$ids] => $r"
done
