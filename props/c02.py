"""C02 - --color-only is a line-for-line, text-preserving filter.

E1 search over everything git hands to interactive.diffFilter / a pager (commit block, diffstat,
all file-section kinds, hunk lines incl. '\\ No newline', blank lines), each line in plain form
and in git's default colouring. Reference model: FIFO of the visible texts of the input lines;
every output row must be the next one (count law: exactly one row per line; text law: same
visible text, suspended only for the overrides the statement names).
"""
import time

import explore
import obs
import producers
import term
from explore import Problem, ViolationError
from lattice import Dim, base_opts, build_args, deviations

PROP = "C02"

ESC = b"\x1b"


def git_colour(line, role):
    """git's default colouring of a diff line (color.diff.* defaults: meta bold, frag cyan,
    old red, new green, commit yellow; the marker of an added line is coloured separately in
    newer git)."""
    if role == "meta":
        return ESC + b"[1m" + line + ESC + b"[m"
    if role == "frag":
        i = line.find(b"@@", 2)
        return ESC + b"[36m" + line[:i + 2] + ESC + b"[m" + line[i + 2:]
    if role == "minus":
        return ESC + b"[31m" + line + ESC + b"[m"
    if role == "plus":
        return ESC + b"[32m+" + ESC + b"[m" + ESC + b"[32m" + line[1:] + ESC + b"[m"
    if role == "commit":
        return ESC + b"[33m" + line + ESC + b"[m"
    return line


def role_of(line, in_hunk):
    if line.startswith(b"commit "):
        return "commit"
    if line.startswith(b"@@"):
        return "frag"
    if in_hunk:
        if line[:1] == b"-":
            return "minus"
        if line[:1] == b"+":
            return "plus"
        return "ctx"
    if line.startswith((b"diff ", b"index ", b"--- ", b"+++ ", b"new file", b"deleted file",
                        b"old mode", b"new mode", b"similarity", b"rename ", b"copy ")):
        return "meta"
    return "other"


DIFFSTAT = [b" f0.txt | 2 +-", b" 1 file changed, 1 insertion(+), 1 deletion(-)", b""]


class ColorOnly(Problem):
    max_depth = 200

    def __init__(self, ocfg, max_sections, kinds, bodies, coloured, src="git"):
        self.src = src
        self.ocfg = ocfg
        self.max_sections = max_sections
        self.kinds = kinds
        self.bodies = bodies
        self.coloured = coloured
        self.cache = {}

    def sec(self, kind, n, body):
        key = (kind, n, body)
        if key not in self.cache:
            lines, info = producers.section(kind, n, body, self.src)
            nh = len(info["hunk_lines"])
            out = []
            for i, l in enumerate(lines):
                in_hunk = info["has_hunk"] and i >= len(lines) - nh
                role = role_of(l, in_hunk)
                out.append((git_colour(l, role) if self.coloured else l, role))
            self.cache[key] = out
        return self.cache[key]

    def preamble(self):
        pre = [(l, role_of(l, False)) for l in producers.COMMIT_BLOCK + DIFFSTAT]
        if self.coloured:
            pre = [(git_colour(l, r), r) for l, r in pre]
        return pre

    # producer state: (nsections done, cur (kind, body) | None | 'pre', index)
    def initial(self):
        return ((0, None, 0), ())

    def _choices(self, n):
        out = []
        if n >= self.max_sections:
            return out
        for kind in self.kinds:
            has_hunk = producers.section(kind, 0, "ctx", self.src)[1]["has_hunk"]
            for body in (self.bodies if has_hunk and kind != "submodule" else ["ctx"]):
                line, role = self.sec(kind, n, body)[0]
                out.append((line, (n, (kind, body), 1), "sec-" + kind + ":" + role))
        return out

    def successors(self, ps):
        n, cur, i = ps
        if cur is None:
            out = self._choices(n)
            if n == 0 and self.src == "git":
                l, r = self.preamble()[0]
                out.append((l, (0, "pre", 1), "pre:" + r))
            return out
        if cur == "pre":
            pre = self.preamble()
            if i < len(pre):
                return [(pre[i][0], (0, "pre", i + 1), "pre:" + pre[i][1])]
            return self._choices(0)
        lines = self.sec(cur[0], n, cur[1])
        if i < len(lines):
            return [(lines[i][0], (n, cur, i + 1), "line:" + lines[i][1])]
        return self._choices(n + 1)

    def can_end(self, ps):
        # the statement speaks of every input line: the input may end anywhere, also right after a hunk header
        return True

    def expected(self, line, role="ctx"):
        t = term.strip(line.decode("utf-8", "replace"))
        tabs = self.ocfg.get("tabs", 0)
        if tabs and role in ("minus", "plus", "ctx"):
            # an explicit --tabs expands tabs in hunk lines; header lines (the tab before the timestamp of a
            # `diff -u` file line) are not code
            t = t.replace("\t", " " * tabs)
        return t

    def _consume(self, q, out):
        q = list(q)
        for info in obs.observe(out):
            if not q:
                raise ViolationError(
                    "extra-line", "an output line %r with no corresponding input line (more "
                    "output lines than input lines)" % info.text, observed=info.text)
            exp, role = q.pop(0)
            if role in self.ocfg.get("omit", ()):
                continue  # explicit 'omit' style: text law suspended for that element
            if not info.row.terminated:
                raise ViolationError("unterminated", "output row without newline",
                                     observed=info.text)
            got = info.text
            ok = (got == exp) if info.exact else (got.rstrip(" ") == exp.rstrip(" "))
            if not ok:
                raise ViolationError(
                    "text-changed:" + role, "output line shows %r, the input line shows %r"
                    % (got, exp), expected=exp, observed=got)
        return tuple(q)

    def step(self, model, line, kind, out, ps):
        role = kind.split(":")[-1]
        q = model + ((self.expected(line, role), role),)
        return self._consume(q, out)

    def eof(self, model, out, ps):
        q = self._consume(model, out)
        if q:
            raise ViolationError(
                "missing-line:" + q[0][1], "%d input line(s) have no output line at end of "
                "input (first: %r): fewer output lines than input lines" % (len(q), q[0][0]),
                expected=q[0][0])


DIMS = [
    Dim("view", [("unified", {}), ("sbs", {"side-by-side": True})]),
    Dim("line-numbers", [("off", {}), ("on", {"line-numbers": True})]),
    Dim("navigate", [("off", {}), ("on", {"navigate": True})]),
    Dim("hyperlinks", [("off", {}), ("on", {"hyperlinks": True})]),
    Dim("preset", [("none", {}), ("diff-so-fancy", {"diff-so-fancy": True}),
                   ("diff-highlight", {"diff-highlight": True})]),
    Dim("features", [("none", {}), ("--features=diff-so-fancy", {"features": "diff-so-fancy"}),
                     ("--features=navigate line-numbers", {"features": "navigate line-numbers"}),
                     ("DELTA_FEATURES=+diff-so-fancy", {"_env_features": "+diff-so-fancy"}),
                     ("DELTA_FEATURES=side-by-side", {"_env_features": "side-by-side diff-highlight"})]),
    Dim("commit-style", [("reserved", {}), ("default", {"commit-style": None}),
                         ("omit", {"commit-style": "omit", "_omit": ("commit",)})]),
    Dim("file-style", [("reserved", {}), ("default", {"file-style": None}),
                       ("omit", {"file-style": "omit", "_omit": ("meta",)})]),
    Dim("hunk-header-style", [("reserved", {}), ("default", {"hunk-header-style": None}),
                              ("omit", {"hunk-header-style": "omit", "_omit": ("frag",)}),
                              # the special words of hunk-header-style: none may change the line under --color-only
                              ("omit-code-fragment", {"hunk-header-style": "line-number omit-code-fragment 110"}),
                              ("file-ln", {"hunk-header-style": "file line-number 110"}),
                              ("syntax", {"hunk-header-style": "syntax"})]),
    Dim("deco-in-style", [("none", {}), ("file-box", {"file-style": "109 box"}),
                          ("commit-underline", {"commit-style": "111 underline"}),
                          ("hunk-raw-box", {"hunk-header-style": "raw box"}),
                          ("file-ul-ol", {"file-style": "109 underline overline"})]),
    Dim("commit-deco", [("reserved", {}), ("box", {"commit-decoration-style": "119 box"}),
                        ("ul", {"commit-decoration-style": "119 ul"})]),
    Dim("file-deco", [("reserved", {}), ("box", {"file-decoration-style": "117 box"}),
                      ("ul-ol", {"file-decoration-style": "117 ul ol"})]),
    Dim("hunk-deco", [("reserved", {}), ("ul", {"hunk-header-decoration-style": "118 ul"}),
                      ("none", {"hunk-header-decoration-style": "none"})]),
    # --relative-paths is not one of the presets the mode implies: diffstat lines stay as they are
    Dim("relative", [("off", {}), ("on,GIT_PREFIX", {"relative-paths": True, "_git_prefix": "sub/"})]),
    Dim("tabs", [("implied-0", {}), ("4", {"tabs": "4", "_tabs": 4})]),
    Dim("width", [("40", {}), ("9", {"width": "9"}), ("variable", {"width": "variable"})]),
    Dim("max-line-distance", [("0.6", {}), ("1", {"max-line-distance": "1"})]),
    Dim("line-buffer-size", [("32", {}), ("0", {"line-buffer-size": "0"}),
                             ("1", {"line-buffer-size": "1"})]),
]


def run_task(task):
    spec, label, ov, deadline = task
    opts = {}
    ocfg = {"tabs": 0, "omit": ()}
    for k, v in ov.items():
        if k.startswith("_"):
            ocfg[k[1:]] = v
        else:
            opts[k] = v
    o = base_opts(opts)
    # decoration styles are left to delta's own resolution unless the configuration sets them (an
    # explicit decoration option on the command line would mask how features / presets resolve them)
    for k in ("file-decoration-style", "hunk-header-decoration-style", "commit-decoration-style"):
        if k not in opts:
            o[k] = None
    o["color-only"] = True
    args = build_args(o)
    drv = explore.get_driver()
    env = {"features": ocfg["env_features"]} if ocfg.get("env_features") else None
    if ocfg.get("git_prefix"):
        env = dict(env or {}, git_prefix=ocfg["git_prefix"], cwd="/work/repo")
    try:
        cid = drv.mkconfig(args, env)
    except explore.Rejected as e:
        return {"label": label, "spec": spec, "rejected": str(e)}
    nsec, kinds, bodies, coloured = spec[:4]
    src = spec[4] if len(spec) > 4 else "git"
    prob = ColorOnly(ocfg, nsec, kinds, bodies, coloured, src)
    stats, viols = explore.bfs(prob, drv, cid, deadline=deadline)
    drv.drop(cid)
    for v in viols:
        v.args = args
        v.config_label = label
    d = stats.merge_dict()
    d.update(label=label, spec=("sections=%d" % nsec, "coloured" if coloured else "plain", src),
             violations=viols, args=args, caller=None)
    return d


def run_other(task):
    """what git hands to a pager besides diffs: blame and grep output (plain and coloured by git), under the callers
    that make delta recognise it; law: one output row per input line, same visible text"""
    name, caller, data, ovs = task
    drv = explore.get_driver(caller=caller)
    viols = []
    n = 0
    for label, ov in ovs:
        if label in ("line-numbers", "side-by-side") and name.endswith(("-after-hunk-header", "-after-changed-lines")):
            continue    # (streams with hunk lines: the line-number gutter is one of the overrides the statement names)
        o = base_opts(dict(ov))
        o["color-only"] = True
        args = build_args(o)
        cid = drv.mkconfig(args)
        r = drv.render1(cid, data)
        drv.drop(cid)
        n += 1
        want = [term.strip(l.decode("utf-8", "replace")) for l in data.split(b"\n")[:-1]]
        got = [row.text for row in term.decode(r.out)] if not r.panic else None
        err = None
        if got is None:
            err = "panic: " + r.panic
        elif len(got) != len(want):
            err = "%d input lines, %d output rows" % (len(want), len(got))
        else:
            for a, b in zip(want, got):
                if a.rstrip(" ") != b.rstrip(" "):
                    err = "input line %r is shown as %r" % (a, b)
                    break
        if err:
            v = explore.Violation("text-changed:" + name, err, data.split(b"\n")[:-1])
            v.args = args
            v.caller = caller
            v.config_label = name + "," + label
            viols.append(v)
            break
    return {"n": n, "violations": viols}


H8 = [b"01234567", b"89abcdef"]
OTHER = [
    ("blame", ["git", "blame", "f.rs"],
     b"".join(H8[i % 2] + b" (A U Thor 2020-01-0%d 00:00:00 +0000 %d) code %d\n" % (i + 1, i + 1, i) for i in range(4))),
    ("blame-coloured", ["git", "blame", "--color-lines", "f.rs"],
     H8[0] + b" (A U Thor 2020-01-01 00:00:00 +0000 1) x\n\x1b[36m" + H8[0] +
     b" (A U Thor 2020-01-01 00:00:00 +0000 2)\x1b[m y\n" + H8[1] + b" (B 2021-01-01 00:00:00 +0000 3) z\n"),
    # `git diff --word-diff`: hunk lines carry no marker column
    ("word-diff", ["git", "diff", "--word-diff"],
     b"diff --git a/f.txt b/f.txt\nindex 1111111..2222222 100644\n--- a/f.txt\n+++ b/f.txt\n@@ -1,3 +1,3 @@\nIntro\n"
     b"the [-old-]{+new+} text\n\nlast\n"),
    # ... and the first line of a hunk looks like a header line (a test script: `diff -u expected actual`)
    ("word-diff-header-lookalike", ["git", "diff", "--word-diff"],
     b"diff --git a/t.sh b/t.sh\nindex 1111111..2222222 100644\n--- a/t.sh\n+++ b/t.sh\n@@ -1,2 +1,2 @@\ndiff -u expected actual\n"
     b"echo [-old-]{+new+}\n@@ -7,2 +7,2 @@\ncommit the result\n[-a-]{+b+}\n@@ -17 +17 @@\nSubmodule x\n@@ -27 +27 @@\nold mode is kept\n"),
    # hand-assembled patches: a file header line directly after a hunk header or after removed/added lines
    ("header-after-hunk-header", None,
     b"--- a/x\n+++ b/x\n@@ -1,0 +1,0 @@\n--- a/y\n+++ b/y\n@@ -1 +1 @@\n-p\n+q\n"),
    ("mode-lines-after-changed-lines", None,
     b"diff --git a/x b/x\n--- a/x\n+++ b/x\n@@ -1 +1 @@\n-p\n+q\nold mode 100644\nnew mode 100755\n"),
    ("file-operation-after-changed-lines", None,
     b"--- a/x\n+++ b/x\n@@ -1 +1 @@\n-p\n+q\ndeleted file mode 100644\n--- a/y\n+++ /dev/null\n@@ -1 +0,0 @@\n-z\n"),
    ("word-diff-coloured", ["git", "log", "-p", "--color-words"],
     b"\x1b[1mdiff --git a/f.txt b/f.txt\x1b[m\n\x1b[1m--- a/f.txt\x1b[m\n\x1b[1m+++ b/f.txt\x1b[m\n\x1b[36m@@ -1,2 +1,2 @@\x1b[m\n"
     b"Intro\nthe \x1b[31mold\x1b[m\x1b[32mnew\x1b[m text\n"),
    ("grep", ["git", "grep", "-n", "x"], b"src/a.rs:7:fn x() {\nsrc/a.rs-8-  y\n--\nsrc/b.rs:1:x\n"),
    ("grep-coloured", ["git", "grep", "-n", "x"],
     b"\x1b[35msrc/a.rs\x1b[m\x1b[36m:\x1b[m\x1b[32m7\x1b[m\x1b[36m:\x1b[mfn \x1b[1;31mx\x1b[m() {\n"),
]


ASSUMPTIONS = [
    "producer: commit block + diffstat + file sections of 12 kinds x 5 hunk endings, in plain form "
    "and in an emulation of git's default colouring (C08 uses real git); plain `diff -u` files with and "
    "without `diff` lines between them",
    "text law suspended exactly for: explicit --tabs, an explicit 'omit' style (that element "
    "only), the line-number gutter (gutter cells discounted); marker removal cannot be requested "
    "from the command line together with --color-only",
    "padded rows (no erase sequence) are compared modulo trailing blanks",
]


def main(tier):
    import runner
    d = 1 if tier == "quick" else 2
    configs = deviations(DIMS, d)
    tasks = []
    K = producers.SECTION_KINDS + ["commit"]     # "commit": the next commit directly after a file (no blank line)
    for label, ov, k in configs:
        for coloured in (False, True):
            if tier == "quick":
                tasks.append(((2 if k == 0 else 1, K, ["ctx", "minusplus", "nonl"], coloured), label, ov))
            else:
                tasks.append(((2 if k <= 1 else 1, K, None if k <= 1 else ["ctx", "minusplus"],
                               coloured), label, ov))
    # delta's own resolution of the three header styles (what `delta --color-only` without further options uses: all
    # raw) and each of them alone: two sections here too - what one header handler leaves undone shows at the next line
    own = {"commit-style": None, "file-style": None, "hunk-header-style": None}
    for label, ov in [("own-header-styles", own)] + [("own-" + k_, {k_: None}) for k_ in sorted(own)]:
        for coloured in (False, True):
            tasks.append(((2, K, ["ctx", "minusplus", "nonl"] if tier == "quick" else None, coloured), label, ov))
    if tier == "thorough":
        tasks.append(((3, K, ["ctx", "minus"], False), "default", {}))
    for t in tasks:
        if t[0][2] is None:
            pass
    tasks = [((s[0], s[1], s[2] or producers.BODY_KINDS, s[3]), l, o) for s, l, o in tasks]
    # lines longer than the default --max-line-length
    for coloured in (False, True):
        tasks.append(((1, ["modified"], ["long"], coloured), "default", {}))
        tasks.append(((1, ["modified"], ["long"], coloured), "line-numbers=on", {"line-numbers": True}))
    # plain `diff -u` sources: with `diff` lines, and several outputs concatenated without them
    for label, ov, k in configs:
        if k == 0 or tier == "thorough" and k == 1 or any(x in label for x in ("file-style", "line-buffer", "view")):
            for src in ("diffu", "diffu_bare"):
                tasks.append(((2 if tier == "quick" else 3, ["modified"], producers.BODY_KINDS, False, src), label, ov))
    cap = 45 if tier == "quick" else 900
    ovs = [("default", {}), ("line-numbers", {"line-numbers": True}), ("side-by-side", {"side-by-side": True}),
           ("hyperlinks", {"hyperlinks": True}), ("navigate", {"navigate": True})]
    ores = explore.pmap(run_other, [(n_, c_, d_, ovs) for n_, c_, d_ in OTHER])
    extra = [v for r in ores for v in r["violations"]]
    return runner.run_e1(PROP, tier, tasks, run_task, ASSUMPTIONS, cap,
                         {"config_deviation_bound": d, "configurations": len(configs),
                          "other_pager_inputs": [n_ for n_, _, _ in OTHER], "other_pager_input_renders": sum(r["n"] for r in ores)},
                         extra_violations=extra)
