"""C06 - within-line emphasis marks exactly what changed; pairing rules.

E2 through full renders with reserved base / non-emph / emph backgrounds.
(i) soundness: all ordered pairs of lines built from <= k tokens over a small alphabet, under
    several distance thresholds and tokenisation regexes: (a) deleting the emphasised cells from
    both lines of a pair leaves the same text (modulo trailing blanks); (b) unpaired lines,
    identical pairs carry no emphasis; (c) when the lines differ by one contiguous token run the
    emphasis on each line is one contiguous stretch whose text is that run (give or take
    adjacent blanks).
(ii) pairing: all subhunks with m <= 3 removed and p <= 3 added lines over 4 contents, observed
    as shared rows in side-by-side view: pairs never cross; distance 1 pairs i-th with i-th;
    distance 0 pairs only lines equal up to whitespace.
"""
import itertools
import re
import time

import build
import explore
import obs
import report
import runner
import term
from build import MachineryError
from explore import Violation
from lattice import base_opts, build_args, classify_style

PROP = "C06"
TOKENS = ["a", "b", "c", " ", ".", "é", "  "]
REGEXES = [("\\w+", r"\w+"), (".", r"."), ("[a-z]+|\\s+", r"[a-z]+|\s+")]
DISTANCES = ["0.6", "0", "1"]


def strings(k, tokens):
    seen = set()
    out = []
    for n in range(1, k + 1):
        for combo in itertools.product(tokens, repeat=n):
            s = "".join(combo)
            if s not in seen:
                seen.add(s)
                out.append(s)
    return out


def tokenize(s, rx):
    """delta documents: tokens are the matches of --word-diff-regex; everything between matches
    is split into single characters."""
    toks = []
    pos = 0
    for m in re.finditer(rx, s):
        if m.end() == m.start():
            continue
        toks.extend(s[pos:m.start()])
        toks.append(m.group(0))
        pos = m.end()
    toks.extend(s[pos:])
    return toks


def line_cells(row):
    """-> list of (char, class) for a unified hunk row (gutter excluded), and kind"""
    info = obs.observe_row(row)
    cells = []
    for t, c in info.body_runs:
        cells.extend((ch, c) for ch in t)
    return info.kind, cells


def analyse_pair(x, y, mrow, prow, rx, dist):
    """returns error string or None; also whether the pair was emphasised"""
    mk, mc = line_cells(mrow)
    pk, pc = line_cells(prow)
    if mk != "minus" or pk != "plus":
        return "rows are not a removed and an added line (%s, %s)" % (mk, pk), False
    mtext = "".join(ch for ch, _ in mc)
    ptext = "".join(ch for ch, _ in pc)
    if mtext.rstrip(" ") != x.rstrip(" ") or ptext.rstrip(" ") != y.rstrip(" "):
        return "line text altered: %r/%r shown as %r/%r" % (x, y, mtext, ptext), False
    m_emph = [c == "minus_emph" for _, c in mc]
    p_emph = [c == "plus_emph" for _, c in pc]
    any_emph = any(m_emph) or any(p_emph)
    classes = set(c for _, c in mc) | set(c for _, c in pc)
    paired = bool(classes & {"minus_non_emph", "minus_emph", "plus_non_emph", "plus_emph"})
    if x == y and any_emph:
        return "identical lines carry emphasis", True
    if float(dist) == 0 and paired and "".join(x.split()) != "".join(y.split()):
        return ("max-line-distance 0: lines that differ in more than whitespace are styled as a pair"), any_emph
    if not paired:
        if any_emph:
            return "emphasis on lines that are not styled as a pair", True
        return None, False
    # (a) soundness: deleting emphasised cells (and a trailing whitespace-error run, which may
    # stand for emphasis at line end) leaves the same text modulo trailing blanks
    def residue(cells, emph_class):
        cells = list(cells)
        # strip trailing padding / ws-error
        while cells and cells[-1][0] == " " and cells[-1][1] in ("ws_error", None, "plus", "minus",
                                                                   "plus_non_emph", "minus_non_emph",
                                                                   "plus_emph", "minus_emph"):
            if cells[-1][1] == "ws_error" or True:
                cells.pop()
            else:
                break
        return "".join(ch for ch, c in cells if c != emph_class).rstrip(" ")
    rm = residue(mc, "minus_emph")
    rp = residue(pc, "plus_emph")
    if rm != rp:
        return ("deleting the emphasised parts leaves %r on the removed line but %r on the added "
                "line" % (rm, rp)), True
    # (c) one contiguous differing token run -> one contiguous emphasised stretch of that text
    tx, ty = tokenize(x, rx), tokenize(y, rx)
    p = 0
    while p < len(tx) and p < len(ty) and tx[p] == ty[p]:
        p += 1
    s = 0
    while s < len(tx) - p and s < len(ty) - p and tx[len(tx) - 1 - s] == ty[len(ty) - 1 - s]:
        s += 1
    D = tx[p:len(tx) - s]
    I = ty[p:len(ty) - s]
    if (not D or not I or not (set(D) & set(I))):
        for name, emph, cells, run in (("removed", m_emph, mc, D), ("added", p_emph, pc, I)):
            idx = [i for i, e in enumerate(emph) if e]
            text = "".join(cells[i][0] for i in idx)
            want = "".join(run)
            if idx and idx[-1] - idx[0] + 1 != len(idx):
                # emphasised cells not contiguous: tolerated only if the gap is blanks
                gap = "".join(cells[i][0] for i in range(idx[0], idx[-1] + 1) if not emph[i])
                if gap.strip(" ") != "":
                    return ("%s line: the difference is one token run %r but the emphasis is "
                            "split (%r not emphasised inside it)" % (name, want, gap)), True
            if text.strip(" ") != want.strip(" "):
                # repeated tokens allow the same edit at another position; require same size
                if len(text.strip(" ")) != len(want.strip(" ")):
                    return ("%s line: differing run is %r but %r is emphasised"
                            % (name, want, text)), True
    return None, True


def run_pairs(task):
    label, opts, rx, dist, xs, ys, deadline = task
    o = dict(opts)
    o["word-diff-regex"] = rx[0]
    o["max-line-distance"] = dist
    o["width"] = "variable"
    o["hunk-header-style"] = "110"
    o["hunk-header-decoration-style"] = "none"
    args = build_args(base_opts(o))
    drv = explore.get_driver()
    cid = drv.mkconfig(args)
    head = b"diff --git a/f b/f\n--- a/f\n+++ b/f\n"
    viols = {}
    n = 0
    nemph = 0
    distinct = set()
    capped = False
    sample = None
    B = 60
    pairs = [(x, y) for x in xs for y in ys]
    for i in range(0, len(pairs), B * 8):
        if time.time() > deadline:
            capped = True
            break
        inputs = []
        groups = []
        for j in range(i, min(i + B * 8, len(pairs)), B):
            grp = pairs[j:j + B]
            data = head + b"".join(b"@@ -1 +1 @@ H\n-" + x.encode() + b"\n+" + y.encode() + b"\n"
                                   for x, y in grp)
            inputs.append(data)
            groups.append(grp)
        res = drv.render(cid, inputs)
        for grp, r in zip(groups, res):
            if r.panic:
                raise MachineryError("panic in C06 render: " + r.panic)
            rows = term.decode(r.out)
            # split at hunk header rows
            chunks = []
            cur = None
            for row in rows:
                info = obs.observe_row(row)
                if info.kind == "hunk":
                    cur = []
                    chunks.append(cur)
                elif cur is not None and info.kind in ("minus", "plus", "mixed", "zero"):
                    cur.append(row)
            if len(chunks) != len(grp):
                raise MachineryError("could not split output into %d hunks (got %d)" % (len(grp), len(chunks)))
            for (x, y), ch in zip(grp, chunks):
                n += 1
                if len(ch) != 2:
                    err, em = "expected one removed and one added row, got %d rows" % len(ch), False
                else:
                    err, em = analyse_pair(x, y, ch[0], ch[1], rx[1], dist)
                if em:
                    nemph += 1
                    distinct.add((x, y))
                if sample is None and em:
                    sample = {"config": label, "removed": x, "added": y}
                if err:
                    klass = "emph:" + err.split(":")[0][:50].split(" %")[0]
                    klass = re.sub(r"'[^']*'|\"[^\"]*\"", "_", klass)[:60]
                    if klass not in viols or len(x) + len(y) < viols[klass].extra["len"]:
                        v = Violation(klass, err, [b"-" + x.encode(), b"+" + y.encode()], None, None, None,
                                      {"len": len(x) + len(y), "regex": rx[0], "distance": dist})
                        v.args = args
                        v.config_label = label
                        viols[klass] = v
    drv.drop(cid)
    return {"n": n, "emph": nemph, "violations": list(viols.values()), "capped": capped,
            "sample": sample, "label": label, "distinct": len(distinct)}


# ---------------------------------------------------------------------------------------------
# (ii) pairing observed in side-by-side view

CONTENTS = ["foo bar baz", "foo bar qux", "foo  bar baz", "zzz", "", "  "]


def ws_equal(a, b):
    return "".join(a.split()) == "".join(b.split())


def run_pairing(task):
    label, dist, shard, deadline = task
    o = {"side-by-side": True, "width": "100", "max-line-distance": dist}
    args = build_args(base_opts(o))
    drv = explore.get_driver()
    cid = drv.mkconfig(args)
    head = "diff --git a/f b/f\n--- a/f\n+++ b/f\n"
    cases = []
    for m in range(0, 4):
        for p in range(0, 4):
            if m + p == 0:
                continue
            for ml in itertools.product(range(len(CONTENTS)), repeat=m):
                for pl in itertools.product(range(len(CONTENTS)), repeat=p):
                    cases.append((ml, pl))
    cases = cases[shard[0]::shard[1]]
    viols = {}
    n = 0
    npaired = 0
    for i in range(0, len(cases), 200):
        chunk = cases[i:i + 200]
        inputs = []
        for ml, pl in chunk:
            # lines are identified by the line numbers delta shows beside them (old numbers 1..m for the
            # removed lines, new numbers 1..p for the added ones), so contents may be blank or repeated
            body = "".join("-%s\n" % CONTENTS[c] for c in ml) + "".join("+%s\n" % CONTENTS[c] for c in pl)
            inputs.append((head + "@@ -1,%d +1,%d @@\n" % (len(ml), len(pl)) + body).encode())
        res = drv.render(cid, inputs)
        for (ml, pl), r in zip(chunk, res):
            n += 1
            if r.panic:
                raise MachineryError("panic: " + r.panic)
            pairs = []
            order_m = []
            order_p = []
            for row in term.decode(r.out):
                sr = obs.observe_sbs_row(row)
                if sr is None:
                    continue
                li = int(sr.left.number) - 1 if sr.left.numclass == "ln_minus" and sr.left.number.isdigit() else None
                ri = int(sr.right.number) - 1 if sr.right.numclass == "ln_plus" and sr.right.number.isdigit() else None
                if li is not None:
                    order_m.append(li)
                if ri is not None:
                    order_p.append(ri)
                if li is not None and ri is not None:
                    pairs.append((li, ri))
            err = None
            if order_m != list(range(len(ml))) or order_p != list(range(len(pl))):
                err = "lines out of order or missing: removed %r added %r" % (order_m, order_p)
            for a, b in zip(pairs, pairs[1:]):
                if not (a[0] < b[0] and a[1] < b[1]):
                    err = "pairs cross: %r" % (pairs,)
            if dist == "1":
                want = [(k, k) for k in range(min(len(ml), len(pl)))]
                if pairs != want:
                    err = "max-line-distance 1: pairs %r, expected i-th with i-th %r" % (pairs, want)
            if dist == "0":
                for a, b in pairs:
                    xa = CONTENTS[ml[a]]
                    yb = CONTENTS[pl[b]]
                    if not ws_equal(xa, yb):
                        err = "max-line-distance 0: %r paired with %r" % (xa, yb)
            npaired += len(pairs)
            if err:
                klass = "pairing:" + err.split(":")[0][:40]
                if klass not in viols:
                    v = Violation(klass, err, inputs[chunk.index((ml, pl))].split(b"\n")[:-1])
                    v.args = args
                    v.config_label = label
                    viols[klass] = v
    drv.drop(cid)
    return {"n": n, "pairs": npaired, "violations": list(viols.values()), "label": label}


def run_long(task):
    """deterministic long lines (hundreds of tokens): an identical pair carries no emphasis, and a
    one-token difference at the start / middle / end emphasises exactly that token"""
    dist, deadline = task
    o = {"max-line-distance": dist, "width": "variable", "hunk-header-style": "110",
         "hunk-header-decoration-style": "none"}
    args = build_args(base_opts(o))
    drv = explore.get_driver()
    cid = drv.mkconfig(args)
    head = b"diff --git a/f b/f\n--- a/f\n+++ b/f\n"
    viols = {}
    n = 0
    for ntok in (50, 130, 200, 270, 400):
        words = ["w%d" % (i % 7) for i in range(ntok)]
        for pos, edit in [(None, None)] + [(p_, e_) for p_ in (0, ntok // 2, ntok - 1)
                                           for e_ in ("CHANGED", "x", ";")]:
            x = " ".join(words)
            yw = list(words)
            if pos is not None:
                # a whole token replaced; one character added to a token; one punctuation character appended
                yw[pos] = "CHANGED" if edit == "CHANGED" else yw[pos] + edit
            y = " ".join(yw)
            data = head + b"@@ -1 +1 @@ H\n-" + x.encode() + b"\n+" + y.encode() + b"\n"
            r = drv.render1(cid, data)
            n += 1
            if r.panic:
                raise MachineryError("panic: " + r.panic)
            rows = [row for row in term.decode(r.out) if obs.observe_row(row).kind in ("minus", "plus")]
            if len(rows) != 2:
                err = "expected 2 rows, got %d" % len(rows)
            else:
                err, em = analyse_pair(x, y, rows[0], rows[1], r"\w+", dist)
                if not err and pos is not None and float(dist) >= 0.6 and not em:
                    err = "a pair differing in 1 of %d tokens is not treated as a pair" % ntok
                if not err and pos is not None and float(dist) == 0 and em:
                    err = ("max-line-distance 0: lines differing in non-whitespace text (%r at token %d of %d) "
                           "are treated as a pair" % (edit, pos, ntok))
            if err:
                klass = "emph-long:" + err.split(":")[0][:40]
                if klass not in viols:
                    v = Violation(klass, "[%d tokens, change at %s] %s" % (ntok, pos, err[:300]),
                                  [b"-" + x.encode(), b"+" + y.encode()])
                    v.args = args
                    viols[klass] = v
    drv.drop(cid)
    return {"n": n, "violations": list(viols.values())}


def run_shapes(task):
    """two shapes of real git output around a pair:
    (1) one line of the pair is shown in its input colours (git --color-moved): the emphasised parts of the other
        line then have no counterpart, so it must carry no emphasis either;
    (2) `\\ No newline at end of file` between the removed and the added last line of a file: the two lines are
        still the i-th removed and i-th added line of one run (max-line-distance 1 pairs them)."""
    deadline, = task
    drv = explore.get_driver()
    viols = {}
    n = 0
    head = b"diff --git a/f b/f\n--- a/f\n+++ b/f\n@@ -1,2 +1,2 @@\n ctx\n"
    cid = drv.mkconfig(build_args(base_opts({"width": "variable"})))
    for name, data in (("moved-minus", head + b"\x1b[1;35m-let third_one = 3;\x1b[m\n\x1b[32m+\x1b[m\x1b[32mlet fourth_one = 3;\x1b[m\n"),
                       ("moved-plus", head + b"\x1b[31m-let third_one = 3;\x1b[m\n\x1b[1;36m+\x1b[m\x1b[1;36mlet fourth_one = 3;\x1b[m\n")):
        r = drv.render1(cid, data)
        n += 1
        for row in term.decode(r.out):
            for t, st in row.runs:
                if t.strip() and classify_style(st) in ("minus_emph", "plus_emph"):
                    if "raw-partner-emphasised" not in viols:
                        v = Violation("raw-partner-emphasised", "[%s] %r is emphasised although the other line of the pair "
                                      "is shown in its input colours without any emphasis" % (name, t), data.split(b"\n")[:-1])
                        v.args = build_args(base_opts({"width": "variable"}))
                        viols[v.klass] = v
    drv.drop(cid)
    args = build_args(base_opts({"width": "variable", "max-line-distance": "1"}))
    cid = drv.mkconfig(args)
    for a, b in (("version = 1", "version = 2"), ("abc", "xyz")):
        data = (b"diff --git a/f b/f\n--- a/f\n+++ b/f\n@@ -1,2 +1,2 @@\n ctx\n-" + a.encode() +
                b"\n\\ No newline at end of file\n+" + b.encode() + b"\n\\ No newline at end of file\n")
        r = drv.render1(cid, data)
        n += 1
        classes = set()
        for row in term.decode(r.out):
            for t, st in row.runs:
                if t.strip():
                    classes.add(classify_style(st))
        if not classes & {"minus_emph", "plus_emph", "minus_non_emph", "plus_non_emph"}:
            if "no-newline-marker-splits-pair" not in viols:
                v = Violation("no-newline-marker-splits-pair", "max-line-distance 1: the removed and the added last line of a "
                              "file without trailing newline (%r / %r) are not treated as a pair" % (a, b), data.split(b"\n")[:-1])
                v.args = args
                viols[v.klass] = v
    drv.drop(cid)
    return {"n": n, "violations": list(viols.values())}


def run_crosshunk(task):
    """lines of different hunks are never partners: a hunk ending in removed lines followed by a hunk starting with
    similar added lines (zero-context diffs) shows no emphasis, whatever the hunk header style"""
    deadline, = task
    drv = explore.get_driver()
    viols = {}
    n = 0
    head = b"diff --git a/f b/f\n--- a/f\n+++ b/f\n"
    inputs = []
    for a, b in (("x tok a", "x tak a"), ("foo bar baz", "foo bar qux"), ("same", "same")):
        inputs.append(head + b"@@ -1 +0,0 @@\n-" + a.encode() + b"\n@@ -5,0 +4 @@\n+" + b.encode() + b"\n")
        inputs.append(head + b"@@ -1,2 +1 @@ fn f()\n c\n-" + a.encode() + b"\n@@ -9 +8,2 @@ fn g()\n+" + b.encode() + b"\n d\n")
    for hh in ("110", "omit", "raw", "syntax", "file line-number 110"):
        for extra in ({}, {"line-numbers": True}, {"side-by-side": True, "width": "80"}, {"max-line-distance": "1"},
                      {"line-buffer-size": "1"}):
            o = {"hunk-header-style": hh, "hunk-header-decoration-style": "none"}
            o.update(extra)
            args = build_args(base_opts(o))
            cid = drv.mkconfig(args)
            res = drv.render(cid, inputs)
            drv.drop(cid)
            for inp, r in zip(inputs, res):
                n += 1
                if r.panic:
                    raise MachineryError("panic: " + r.panic)
                bad = None
                for row in term.decode(r.out):
                    for t, st in row.runs:
                        if t.strip() and obs.classify_style(st) in ("minus_emph", "plus_emph", "minus_non_emph", "plus_non_emph"):
                            bad = "text %r of a line whose only possible partner is in another hunk is styled as part " \
                                  "of a pair (%s)" % (t, obs.classify_style(st))
                if bad and "cross-hunk-pair" not in viols:
                    v = Violation("cross-hunk-pair", bad, inp.split(b"\n")[:-1])
                    v.args = args
                    v.config_label = "hunk-header-style=%s,%s" % (hh, extra)
                    viols["cross-hunk-pair"] = v
    return {"n": n, "violations": list(viols.values())}


ASSUMPTIONS = [
    "token alphabet {a, b, c, blank, '.', 'é', two blanks}; pairs exhaustive up to k tokens; the "
    "statement's 'randomly for long realistic lines' is sampling (another technique family): not "
    "done, not claimed; a small deterministic family of long lines (50-400 tokens, one token changed at "
    "the start / middle / end, or none) is enumerated instead",
    "cells classified by reserved backgrounds: base 101/104, non-emph 102/105, emph 103/106, "
    "whitespace-error 108 (may stand for emphasis only at the end of a line)",
    "rule (c) applied when, at delta's documented token granularity, the lines are P.D.S / P.I.S "
    "with D or I empty or sharing no token; repeated tokens allow the same edit elsewhere, so only "
    "contiguity and size are required then",
]


def run_special(task):
    """(a) a run longer than the line buffer: the lines still buffered when the run ends are not the i-th lines of the run,
    so they may not be shown as partners of the first added lines (N = line-buffer-size + 2 .. + 4 removed lines, then 3
    added ones, distance 1 and 0.6); (b) lines that differ only in bytes that are not UTF-8 (a Latin-1 file): at
    distance 0 they are no partners (recorded finding, see known_findings.json)."""
    (deadline,) = task
    drv = explore.get_driver()
    viols = []
    n = 0
    head = b"diff --git a/f b/f\n--- a/f\n+++ b/f\n"

    def bgs(row):
        return set(st[1] for t, st in row.runs if t.strip() and st[1] is not None)
    for lbs in (2, 32):
        for dist in ("1", "0.6"):
            o = {"max-line-distance": dist, "line-buffer-size": str(lbs), "width": "variable", "hunk-header-style": "110",
                 "hunk-header-decoration-style": "none"}
            args = build_args(base_opts(o))
            cid = drv.mkconfig(args)
            for extra in (2, 3, 4):
                nm = lbs + extra
                data = head + b"@@ -1,%d +1,3 @@\n" % nm + b"".join(b"-    step_%02d\n" % i for i in range(1, nm + 1)) + \
                    b"".join(b"+step_%02d\n" % i for i in range(1, 4))
                r = drv.render1(cid, data)
                n += 1
                rows = [row for row in term.decode(r.out) if obs.observe_row(row).kind in ("plus", "mixed")]
                paired = [row.text for row in rows if bgs(row) & {("i", 105), ("i", 106)}]
                if paired and not any(v.klass == "paired-across-buffer-overflow" for v in viols):
                    v = Violation("paired-across-buffer-overflow", "%d removed lines (line-buffer-size %d) then 3 added lines: added "
                                  "line(s) %r are shown as partners of removed lines %d.. (the i-th removed line belongs to the "
                                  "i-th added line)" % (nm, lbs, paired, lbs + 2), data.split(b"\n")[:-1])
                    v.args = args
                    v.config_label = "overflow,lbs=%d,distance=%s" % (lbs, dist)
                    viols.append(v)
            drv.drop(cid)
    # (b') a run whose removed and whose added lines each fit the line buffer is paired as a whole: N removed lines that
    # each have a similar i-th added line, N = line-buffer-size and N - 1 (with N + 1 lines the buffer overflows: the rest of the run is unpaired by design)
    for lbs in (2, 5, 32):
        o = {"max-line-distance": "0.6", "line-buffer-size": str(lbs), "width": "variable", "hunk-header-style": "110",
             "hunk-header-decoration-style": "none"}
        args = build_args(base_opts(o))
        cid = drv.mkconfig(args)
        for nm in (lbs - 1, lbs):
            data = head + b"@@ -1,%d +1,%d @@\n" % (nm, nm) + b"".join(b"-step %02d old value\n" % i for i in range(1, nm + 1)) + \
                b"".join(b"+step %02d new value\n" % i for i in range(1, nm + 1))
            r = drv.render1(cid, data)
            n += 1
            rows = [row for row in term.decode(r.out) if obs.observe_row(row).kind in ("plus", "mixed")]
            unpaired = [row.text for row in rows if not (bgs(row) & {("i", 105), ("i", 106)})]
            if (unpaired or len(rows) != nm) and not any(v.klass == "run-within-buffer-not-paired" for v in viols):
                v = Violation("run-within-buffer-not-paired", "%d removed and %d similar added lines (line-buffer-size %d, each side "
                              "within the buffer): added line(s) %r are shown without a partner" % (nm, nm, lbs, unpaired[:3]),
                              data.split(b"\n")[:-1])
                v.args = args
                v.config_label = "within-buffer,lbs=%d" % lbs
                viols.append(v)
        drv.drop(cid)
    # (c) what a pair looks like does not depend on the runs before it: every sequence of <= 6 removed / added /
    # unchanged lines (ending in an added or unchanged line, so that the probe pair is a run of its own), for line
    # buffers of 0, 1 and 2 lines - the sequences include every way of filling the buffers exactly, overflowing them,
    # and ending a run right at the limit
    import itertools
    probe = [b"-alpha beta gamma", b"+alpha BETA gamma"]

    def probe_rows(out):
        return [row.cells() for row in term.decode(out) if "alpha" in row.text]
    for lbs in (0, 1, 2, 32):
        o = {"max-line-distance": "0.6", "line-buffer-size": str(lbs), "width": "variable", "hunk-header-style": "110",
             "hunk-header-decoration-style": "none"}
        args = build_args(base_opts(o))
        cid = drv.mkconfig(args)
        prefixes = [()]
        for L in range(1, 7 if lbs < 32 else 4):
            prefixes += [p_ for p_ in itertools.product((b" c", b"-r", b"+a"), repeat=L) if p_[-1] != b"-r"]
        if lbs == 32:
            prefixes += [(b"+a",) * k_ for k_ in (32, 33, 34)] + [(b"-r",) * k_ + (b" c",) for k_ in (32, 33, 34)] + \
                [(b"-r",) * k_ + (b"+a",) * j_ for k_ in (32, 33, 34) for j_ in (1, 33)]
        datas = []
        for p_ in prefixes:
            body = [l + (b"%d" % i) for i, l in enumerate(p_)] + probe + [b" end"]
            nm = sum(1 for l in body if l[:1] in b" -")
            np_ = sum(1 for l in body if l[:1] in b" +")
            datas.append(head + b"@@ -1,%d +1,%d @@\n" % (nm, np_) + b"\n".join(body) + b"\n")
        res = drv.render(cid, datas)
        ref = probe_rows(res[0].out) if not res[0].panic else None
        for p_, d_, r in zip(prefixes, datas, res):
            n += 1
            if r.panic or ref is None:
                continue
            if probe_rows(r.out) != ref and not any(v.klass == "pair-depends-on-earlier-runs" for v in viols):
                v = Violation("pair-depends-on-earlier-runs", "line-buffer-size %d: after the lines %r the pair %r is painted "
                              "differently from the same pair at the start of a hunk" % (lbs, [x.decode() for x in p_],
                                                                                        [x.decode() for x in probe]),
                              d_.split(b"\n")[:-1])
                v.args = args
                v.config_label = "history,lbs=%d" % lbs
                viols.append(v)
        drv.drop(cid)
    o = {"max-line-distance": "0", "width": "variable", "hunk-header-style": "110", "hunk-header-decoration-style": "none"}
    args = build_args(base_opts(o))
    cid = drv.mkconfig(args)
    for a, b in ((b"caf\xe9 du monde", b"caf\xe8 du monde"), (b"x \xff y", b"x \xfe y"), (b"\xe9", b"\xe8")):
        data = head + b"@@ -1 +1 @@\n-" + a + b"\n+" + b + b"\n"
        r = drv.render1(cid, data)
        n += 1
        rows = [row for row in term.decode(r.out) if obs.observe_row(row).kind in ("minus", "plus", "mixed")]
        if any(bgs(row) & {("i", 102), ("i", 105)} for row in rows) and not any(v.klass.startswith("paired-though") for v in viols):
            v = Violation("paired-though-different:invalid-utf8", "max-line-distance 0: %r and %r differ in a byte that is not "
                          "UTF-8 and are shown as a pair of identical lines" % (a, b), data.split(b"\n")[:-1])
            v.args = args
            v.config_label = "invalid-utf8,distance=0"
            viols.append(v)
    drv.drop(cid)
    return {"n": n, "violations": viols, "label": "special"}


def main(tier):
    t0 = time.time()
    build.ensure_built()
    cap = 50 if tier == "quick" else 900
    deadline = t0 + cap
    k = 3 if tier == "quick" else 4
    S = strings(k, TOKENS[:5] if tier == "quick" else TOKENS)
    S4 = strings(4, TOKENS[:5]) if tier == "quick" else strings(4, TOKENS)
    tasks = []
    for rx in REGEXES:
        for dist in DISTANCES:
            # shard the left operand
            for i in range(0, len(S), max(1, len(S) // 4)):
                tasks.append(("regex=%s,distance=%s" % (rx[0], dist), {}, rx, dist,
                              S[i:i + max(1, len(S) // 4)], S, deadline))
    if tier == "quick":
        # k = 4 for the default regex and threshold, left operands sharded
        for i in range(0, len(S4), 40):
            tasks.append(("regex=\\w+,distance=0.6,k=4", {}, REGEXES[0], "0.6", S4[i:i + 40], S4, deadline))
    # zero-width characters are not whitespace: at distance 0 a line and the same line with a zero-width space /
    # byte-order mark / right-to-left override are no partners
    ZW = strings(3, ["a", " ", "\u200b", "\ufeff", "\u202e"])
    tasks.append(("regex=\\w+,distance=0,zero-width", {}, REGEXES[0], "0", ZW, ZW, deadline))
    res = explore.pmap(run_pairs, tasks)
    res2 = explore.pmap(run_pairing, [("pairing,distance=%s" % d, d, (i, 6), deadline)
                                      for d in DISTANCES for i in range(6)])
    res3 = explore.pmap(run_long, [(d, deadline) for d in DISTANCES])
    res3 += explore.pmap(run_crosshunk, [(deadline,)])
    res3 += explore.pmap(run_shapes, [(deadline,)])
    res3 += explore.pmap(run_special, [(deadline,)])
    res2 = res2 + [dict(r, pairs=0) for r in res3]
    n = sum(r["n"] for r in res)
    nemph = sum(r["emph"] for r in res)
    viols = []
    caps = [r["label"] for r in res if r["capped"]]
    samples = [r["sample"] for r in res if r["sample"]][:4]
    for r in res + res2:
        viols.extend(r["violations"])
    best = {}
    for v in viols:
        if v.klass not in best or sum(map(len, v.history)) < sum(map(len, best[v.klass].history)):
            best[v.klass] = v
    viols = sorted(best.values(), key=lambda v: v.klass)
    cov = {
        "evaluations": n + sum(r["n"] for r in res2),
        "distinct_nontrivial": nemph,
        "rule": "one evaluation = one (removed line, added line) pair rendered by the real code under "
                "one (regex, threshold); non-trivial = the pair was styled as a homologous pair "
                "(counted per configuration); plus %d subhunks for the pairing rules with %d observed "
                "pairs" % (sum(r["n"] for r in res2), sum(r["pairs"] for r in res2)),
        "samples": samples, "token_bound_k": k, "strings": len(S),
        "regexes": [r[0] for r in REGEXES], "distances": DISTANCES,
        "pairing_subhunks": sum(r["n"] for r in res2), "caps_hit": caps, "exhaustive": not caps,
    }
    return report.finish(PROP, tier, "exploration", cov, viols, ASSUMPTIONS, t0, runner.seed())
