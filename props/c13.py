"""C13 - option values resolve by the documented precedence, deterministically.

E2 over a small-scope lattice of placements, observed through the real option processing and
`--show-config`: every feature graph of a generated family (ways of enabling two custom features
and a built-in one through --features, DELTA_FEATURES with and without '+', [delta] features, a
nested features= list, a built-in flag on the command line / in [delta] / inside a custom section)
x all 32 subsets of the sources {command line, [delta], GIT_CONFIG_PARAMETERS, [delta "f1"],
[delta "f2"]} for plain options (spread over eight probe options per configuration), plus probes
that a built-in feature sets. Reference: the documented priority list (DESIGN.md appendix A).
Determinism: every case under K controlled hash seeds; `--no-gitconfig` ignores every gitconfig
source.
"""
import itertools
import os
import re
import time

import build
import explore
import report
import runner
import term
from build import MachineryError, BUILD
from explore import Violation

PROP = "C13"
UNDET = "undetermined"

# plain probe options (no built-in feature sets them): name -> (values per source, default)
# (width and pager are optional strings inside delta: a different value type than the labels)
PLAIN = ["file-added-label", "file-removed-label", "file-renamed-label", "right-arrow",
         "word-diff-regex", "tabs", "diff-stat-align-width", "width", "pager", "max-line-distance"]
SHOWN = {"file-added-label", "file-removed-label", "file-renamed-label", "right-arrow", "word-diff-regex",
         "tabs", "diff-stat-align-width", "file-modified-label", "width", "pager", "max-line-distance"}
SOURCES = ["cli", "main", "gcp", "f1", "f2"]
INT_OPTS = {"tabs": {"cli": "11", "main": "12", "gcp": "13", "f1": "14", "f2": "15"},
            "diff-stat-align-width": {"cli": "21", "main": "22", "gcp": "23", "f1": "24", "f2": "25"},
            "width": {"cli": "91", "main": "92", "gcp": "93", "f1": "94", "f2": "95"},
            "max-line-distance": {"cli": "0.11", "main": "0.12", "gcp": "0.13", "f1": "0.14", "f2": "0.15"}}
DEFAULTS = {"file-added-label": "added:", "file-removed-label": "removed:", "file-renamed-label": "renamed:",
            "right-arrow": "⟶  ", "word-diff-regex": "\\w+", "tabs": "8", "diff-stat-align-width": "48",
            "file-modified-label": "", "width": "80", "pager": "none", "max-line-distance": "0.6"}
BUILTIN = {"navigate": {"file-modified-label": "Δ"}}


def value_for(opt, src):
    if opt in INT_OPTS:
        return INT_OPTS[opt][src]
    return "v_" + src


class Scenario(object):
    def __init__(self, cli_features, env_features, main_features, nested, flag_place, subsets, gcp_format=0,
                 builtin_override=None):
        self.cli_features = cli_features      # list or None
        self.env_features = env_features      # string or None (may start with '+')
        self.main_features = main_features    # list or None
        self.nested = nested                  # None | 'f2' | 'navigate'  ([delta "f1"] features = ..)
        self.flag_place = flag_place          # None | 'cli' | 'main' | 'f1'   (navigate = true)
        self.subsets = subsets                # dict option -> frozenset of sources defining it
        self.gcp_format = gcp_format
        self.builtin_override = builtin_override  # None | source in which file-modified-label is set

    def label(self):
        return "cli_features=%s env=%r main_features=%s nested=%s navigate-flag=%s" % (
            self.cli_features, self.env_features, self.main_features, self.nested, self.flag_place)

    # -- materialise -------------------------------------------------------------------------
    def gitconfig(self):
        main = []
        if self.main_features is not None:
            main.append(("features", " ".join(self.main_features)))
        if self.flag_place == "main":
            main.append(("navigate", "true"))
        f1 = []
        f2 = []
        if self.nested:
            f1.append(("features", self.nested))
        if self.flag_place == "f1":
            f1.append(("navigate", "true"))
        for opt, srcs in self.subsets.items():
            if "main" in srcs:
                main.append((opt, value_for(opt, "main")))
            if "f1" in srcs:
                f1.append((opt, value_for(opt, "f1")))
            if "f2" in srcs:
                f2.append((opt, value_for(opt, "f2")))
        out = "[delta]\n" + "".join("\t%s = %s\n" % kv for kv in main)
        out += '[delta "f1"]\n' + "".join("\t%s = %s\n" % kv for kv in f1)
        out += '[delta "f2"]\n' + "".join("\t%s = %s\n" % kv for kv in f2)
        if self.builtin_override == "navsec":
            out += '[delta "navigate"]\n\tfile-modified-label = v_navsec\n'
        return out

    def args(self, config_path, no_gitconfig=False):
        a = ["--paging=never", "--detect-dark-light=never", "--dark"]
        if no_gitconfig:
            a.append("--no-gitconfig")
        elif config_path:
            a.append("--config=" + config_path)
        if self.cli_features is not None:
            a.append("--features=" + " ".join(self.cli_features))
        if self.flag_place == "cli":
            a.append("--navigate")
        for opt, srcs in sorted(self.subsets.items()):
            if "cli" in srcs:
                a.append("--%s=%s" % (opt, value_for(opt, "cli")))
        return a

    def env(self):
        e = {}
        if self.env_features is not None:
            e["features"] = self.env_features
        gcp = []
        for opt, srcs in sorted(self.subsets.items()):
            if "gcp" in srcs:
                if self.gcp_format == 0:
                    gcp.append("'delta.%s=%s'" % (opt, value_for(opt, "gcp")))
                else:
                    gcp.append("'delta.%s'='%s'" % (opt, value_for(opt, "gcp")))
        if gcp:
            e["git_config_parameters"] = " ".join(gcp)
        return e

    # -- reference model ---------------------------------------------------------------------
    def feature_priority(self, no_gitconfig=False, plus_first=True):
        """features from highest to lowest priority (documented rules, appendix A)"""
        prio = []

        def place(f, from_gitconfig_allowed=True):
            if f in prio:
                return
            prio.append(f)
            if no_gitconfig:
                return
            if f == "f1":
                if self.nested:
                    for child in reversed(self.nested.split()):
                        place(child)
                if self.flag_place == "f1":
                    place("navigate")
        listed = None
        replaces = False
        if self.env_features is not None and not self.env_features.startswith("+"):
            listed = self.env_features.split()
            replaces = True
        else:
            listed = list(self.cli_features or [])
            if self.env_features is not None:
                # '+' value: "added" to the list; whether the added names rank above or below the
                # --features names is not documented: both orders are computed (see expected())
                plus = self.env_features[1:].split()
                listed = (plus + listed) if plus_first else (listed + plus)
        for f in reversed(listed):
            place(f)
        if self.flag_place == "cli":
            place("navigate")
        if not no_gitconfig:
            if self.cli_features is None and not replaces:
                for f in reversed(self.main_features or []):
                    place(f)
            if self.flag_place == "main":
                place("navigate")
        return prio

    def expected(self, opt, no_gitconfig=False):
        """set of acceptable values"""
        if self.env_features is not None and self.env_features.startswith("+"):
            return {self._expected(opt, no_gitconfig, True), self._expected(opt, no_gitconfig, False)}
        return {self._expected(opt, no_gitconfig, True)}

    def _expected(self, opt, no_gitconfig, plus_first):
        srcs = self.subsets.get(opt, frozenset())
        if "cli" in srcs:
            return value_for(opt, "cli")
        if not no_gitconfig:
            if "gcp" in srcs:
                return value_for(opt, "gcp")
            if "main" in srcs:
                return value_for(opt, "main")
        for f in self.feature_priority(no_gitconfig, plus_first):
            if f in ("f1", "f2"):
                if not no_gitconfig and f in srcs:
                    return value_for(opt, f)
            elif f in BUILTIN:
                if f == "navigate" and opt == "file-modified-label" and self.builtin_override == "navsec" \
                        and not no_gitconfig:
                    return "v_navsec"
                if opt in BUILTIN[f]:
                    return BUILTIN[f][opt]
        return DEFAULTS[opt]


def parse_show_config(text):
    out = {}
    for line in term.strip(text).split("\n"):
        m = re.match(r"^\s+([a-z0-9-]+)\s+= (.*)$", line)
        if m:
            v = m.group(2)
            if len(v) >= 2 and v[0] == "'" and v[-1] == "'":
                v = v[1:-1]
            out[m.group(1)] = v
    return out


def all_subsets():
    subs = []
    for r in range(len(SOURCES) + 1):
        for c in itertools.combinations(SOURCES, r):
            subs.append(frozenset(c))
    return subs


def graphs(tier):
    lists = [["f1"], ["f2"], ["navigate"], ["f1", "f2"], ["f2", "f1"], ["f1", "navigate"], ["navigate", "f1"],
             ["f1", "f2", "f1"], ["f2", "f1", "f2"]]
    if tier == "thorough":
        lists += [["f1", "f1"], ["navigate", "f2"], ["f2", "navigate", "f1"]]
    cli_f = [None] + lists
    env_f = [None, "f2", "+f2", "navigate", "f1 f2", "+navigate", "+f1"] + (["f2 f1"] if tier == "thorough" else [])
    main_f = [None, ["f1"], ["f2", "f1"], ["navigate", "f1"], ["f1", "f2"]] + ([["f2"]] if tier == "thorough" else [])
    nested = [None, "f2", "navigate"] + (["f2 navigate"] if tier == "thorough" else [])
    flags = [None, "cli", "main", "f1"]
    for c in cli_f:
        for e in env_f:
            for m in main_f:
                for n in nested:
                    for fl in flags:
                        yield c, e, m, n, fl


def run_task(task):
    seeds, cases, deadline = task
    shims = build.ensure_shims()
    home = os.path.join(BUILD, "tmp", "c13_%d" % os.getpid())
    os.makedirs(home, exist_ok=True)
    cfg_path = os.path.join(home, "case.gitconfig")
    drivers = []
    for s in seeds:
        env = {"LD_PRELOAD": os.path.join(shims, "seedrandom.so"), "VERIF_RANDOM_SEED": str(s), "HOME": home,
               "XDG_CONFIG_HOME": home}
        drivers.append(explore.get_driver(extra_env=env, cwd=home))
    n = 0
    viols = {}
    orders = set()
    distinct = set()
    capped = False
    sample = None
    for sc in cases:
        if time.time() > deadline:
            capped = True
            break
        text = sc.gitconfig()
        with open(cfg_path, "w") as f:
            f.write(text)
        with open(os.path.join(home, ".gitconfig"), "w") as f:
            f.write(text)
        results = []
        for mode in ("config", "home", "no-gitconfig"):
            args = sc.args(cfg_path if mode == "config" else None, no_gitconfig=(mode == "no-gitconfig"))
            per_seed = []
            for d in (drivers if mode == "config" else drivers[:1]):
                try:
                    cid = d.mkconfig(args, sc.env())
                    out, feats = d.showconfig(cid)
                    d.drop(cid)
                    per_seed.append((parse_show_config(out), feats))
                except explore.Rejected as e:
                    per_seed.append(({"_rejected": str(e)[:100]}, None))
            results.append((mode, args, per_seed))
        n += 1
        if sample is None:
            sample = {"gitconfig": text, "args": results[0][1], "env": sc.env()}
        for mode, args, per_seed in results:
            vals0, feats0 = per_seed[0]
            if "_rejected" in vals0:
                klass, err = "rejected", "option set rejected: " + vals0["_rejected"]
            else:
                klass = err = None
                for vals, feats in per_seed[1:]:
                    if vals != vals0 or feats != feats0:
                        diff = [k for k in vals0 if vals0.get(k) != vals.get(k)]
                        klass = "nondeterministic"
                        err = "same sources, different hash seed: %s differ (features %r vs %r)" % (diff, feats0, feats)
                if err is None:
                    for opt in sc.subsets:
                        if opt not in SHOWN:
                            continue
                        want = sc.expected(opt, no_gitconfig=(mode == "no-gitconfig"))
                        got = vals0.get(opt)
                        distinct.add((opt, got))
                        if got not in want:
                            klass = "wrong-winner:" + mode
                            err = "%s = %r, the documented precedence gives %r (sources %s; features by priority %s; delta's feature list %r)" % (
                                opt, got, want, sorted(sc.subsets[opt]),
                                sc.feature_priority(mode == "no-gitconfig"), feats0)
                            break
            if err and klass not in viols:
                v = Violation(klass, err, text.encode().split(b"\n"), None, None, None,
                              {"env": sc.env(), "scenario": sc.label()})
                v.args = args
                v.env = sc.env()
                v.config_label = mode
                viols[klass] = v
    for d in drivers:
        orders.add(d._call({"op": "hashorder"})["order"])
    return {"n": n, "violations": list(viols.values()), "orders": orders, "distinct": distinct,
            "capped": capped, "sample": sample}


def determinism_cases():
    """two built-in features enabled by flags in one section: their relative priority is not
    documented, but the result must not depend on the hash seed"""
    out = []
    for flags in (["diff-so-fancy", "diff-highlight"], ["navigate", "diff-so-fancy", "line-numbers"],
                  ["raw", "diff-highlight"], ["side-by-side", "color-only", "diff-so-fancy"]):
        out.append(flags)
    return out


def run_determinism(task):
    seeds, deadline = task
    shims = build.ensure_shims()
    home = os.path.join(BUILD, "tmp", "c13d_%d" % os.getpid())
    os.makedirs(home, exist_ok=True)
    cfg_path = os.path.join(home, "case.gitconfig")
    viols = []
    n = 0
    for flags in determinism_cases():
        for section in ("delta", 'delta "f1"'):
            text = "[%s]\n" % section + "".join("\t%s = true\n" % f for f in flags)
            if section != "delta":
                text = "[delta]\n\tfeatures = f1\n" + text
            with open(cfg_path, "w") as f:
                f.write(text)
            seen = {}
            for s in seeds:
                env = {"LD_PRELOAD": os.path.join(shims, "seedrandom.so"), "VERIF_RANDOM_SEED": str(s), "HOME": home}
                d = explore.get_driver(extra_env=env, cwd=home)
                for rep in range(3):
                    cid = d.mkconfig(["--config=" + cfg_path, "--paging=never", "--detect-dark-light=never", "--dark"])
                    out, feats = d.showconfig(cid)
                    d.drop(cid)
                    n += 1
                    seen.setdefault((term.strip(out), feats), (s, rep))
            if len(seen) > 1:
                keys = list(seen)
                a, b = parse_show_config(keys[0][0]), parse_show_config(keys[1][0])
                diff = sorted(k for k in a if a[k] != b.get(k))
                v = Violation("nondeterministic:builtin-flags-in-one-section",
                              "built-in feature flags %s in [%s]: %d different results over hash seeds; "
                              "differing options %s; feature lists %r vs %r"
                              % (flags, section, len(seen), diff[:6], keys[0][1], keys[1][1]),
                              text.encode().split(b"\n"))
                v.args = ["--config=<file>"]
                viols.append(v)
    return {"n": n, "violations": viols}


ASSUMPTIONS = [
    "reference = the documented priority list (DESIGN.md appendix A): command line > [delta] incl. "
    "GIT_CONFIG_PARAMETERS > features last-listed first, each followed by the features it enables, custom "
    "section before the built-in default, --features/DELTA_FEATURES before flags > default",
    "not part of the claim and not checked for a particular winner: relative order of two built-in "
    "flags in one place, order inside one '+' DELTA_FEATURES value (single names are used there)",
    "hash seeds: K controlled seeds; evidence lists the distinct HashMap iteration orders observed",
    "options observed are those --show-config prints",
]


# ---------------------------------------------------------------------------------------------
# Laws over delta's own built-in features (differential: no hand-written expected values)

LAW_FEATS = ["navigate", "line-numbers", "side-by-side", "diff-so-fancy", "diff-highlight", "raw", "color-only",
             "hyperlinks"]
LAW_VALUES = dict((o, "normal 17") for o in [
    "commit-style", "file-style", "hunk-header-style", "minus-style", "minus-non-emph-style", "minus-emph-style",
    "minus-empty-line-marker-style", "zero-style", "plus-style", "plus-non-emph-style", "plus-emph-style",
    "plus-empty-line-marker-style", "grep-file-style", "grep-line-number-style", "whitespace-error-style"])
LAW_VALUES.update({"blame-palette": "#010203 #040506", "file-added-label": "v_cli", "file-modified-label": "v_cli",
                   "file-removed-label": "v_cli", "file-renamed-label": "v_cli", "right-arrow": "v_cli",
                   "max-line-distance": "0.11", "max-line-length": "77", "diff-stat-align-width": "21",
                   "line-fill-method": "ansi", "navigate-regex": "v_cli", "pager": "v_cli", "width": "91", "tabs": "11",
                   "word-diff-regex": "v_cli", "syntax-theme": "GitHub"})


REF_STYLE_OPTS = ["minus-style", "plus-style", "zero-style", "minus-emph-style", "plus-emph-style", "file-style",
                  "hunk-header-style", "commit-style", "line-numbers-zero-style", "grep-match-line-style",
                  "blame-code-style", "inline-hint-style", "whitespace-error-style",
                  "merge-conflict-ours-diff-header-style"]


def run_laws(task):
    """(1) the command line wins over every built-in feature: the value --show-config reports for `--O=v` is the same
    with and without a feature enabled (by flag, --features or DELTA_FEATURES), with and without a gitconfig file;
    (2) of two built-in features listed together the last-listed wins: where A alone and B alone both change an
    option, to different values, `A B` gives B's value."""
    which, deadline = task
    home = os.path.join(BUILD, "tmp", "c13_laws_%d" % os.getpid())
    os.makedirs(home, exist_ok=True)
    cfg = os.path.join(home, "empty.gitconfig")
    with open(cfg, "w") as f:
        f.write("[delta]\n")
    drv = explore.get_driver(extra_env={"HOME": home, "XDG_CONFIG_HOME": home}, cwd=home)
    viols = {}
    n = 0
    distinct = set()

    def sc(args, env=None):
        try:
            cid = drv.mkconfig(args, env)
        except explore.Rejected as e:
            return {"_rejected": str(e)[:80]}
        out, feats = drv.showconfig(cid)
        drv.drop(cid)
        return parse_show_config(out)

    def note(klass, msg, args, env):
        if klass not in viols:
            v = Violation(klass, msg, [], None, None, None, {"env": env})
            v.args = args
            v.env = env
            viols[klass] = v

    for cfgmode in ("no-gitconfig", "config"):
        base = ["--paging=never", "--detect-dark-light=never", "--dark"] + \
            (["--no-gitconfig"] if cfgmode == "no-gitconfig" else ["--config=" + cfg])
        if which == "cli-wins":
            # (every option with its test value; the label options also with an empty value, which is a value too)
            for o, v in sorted(LAW_VALUES.items()) + [(o_, "") for o_ in sorted(LAW_VALUES) if o_.endswith("-label")
                                                      or o_ == "right-arrow"]:
                ref = sc(base + ["--%s=%s" % (o, v)]).get(o)
                for f in LAW_FEATS:
                    if (o, f) == ("max-line-length", "side-by-side"):
                        continue    # documented: side-by-side raises the limit so that there is text to wrap
                    for form in ("flag", "features", "env"):
                        env = {"features": f} if form == "env" else None
                        a = base + (["--" + f] if form == "flag" else ["--features=" + f] if form == "features" else []) \
                            + ["--%s=%s" % (o, v)]
                        got = sc(a, env).get(o)
                        n += 1
                        distinct.add((o, got))
                        if got != ref:
                            note("cli-does-not-win:" + o, "--%s=%s gives %r, but %r once the built-in feature %s is enabled "
                                 "(%s, %s)" % (o, v, ref, got, f, form, cfgmode), a, env)
        elif which == "gcp" and cfgmode == "config":
            # `git -c delta.K=V` (GIT_CONFIG_PARAMETERS) means what `K = V` in the [delta] section means - also for
            # git's other spellings of booleans and for an empty value - and overrides what the file says
            cfg2 = os.path.join(home, "kv.gitconfig")
            cfg3 = os.path.join(home, "opposite.gitconfig")
            for key, vals, opposite in (("navigate", ["yes", "on", "1", "True", "no", "off", "0", "FALSE"], None),
                                        ("side-by-side", ["yes", "no"], None),
                                        ("keep-plus-minus-markers", ["on", "off"], None),
                                        ("file-added-label", [""], "x"), ("file-modified-label", [""], "y")):
                for v in vals:
                    with open(cfg2, "w") as f:
                        f.write("[delta]\n    %s = %s\n" % (key, v))
                    opp = opposite if opposite is not None else \
                        ("false" if v.lower() in ("yes", "on", "1", "true") else "true")
                    with open(cfg3, "w") as f:
                        f.write("[delta]\n    %s = %s\n" % (key, opp))
                    b0 = ["--paging=never", "--detect-dark-light=never", "--dark"]
                    ref = sc(b0 + ["--config=" + cfg2])
                    for fmt in ("'delta.%s=%s'", "'delta.%s'='%s'"):
                        env = {"git_config_parameters": fmt % (key, v)}
                        for label, cf in (("empty file", cfg), ("file says the opposite", cfg3)):
                            got = sc(b0 + ["--config=" + cf], env)
                            n += 1
                            distinct.add((key, v, label))
                            diff = sorted(k for k in ref if ref.get(k) != got.get(k))
                            if diff:
                                note("gcp-value-not-honoured:" + key, "GIT_CONFIG_PARAMETERS %s (%s) gives %s = %r; `%s = %s` in "
                                     "the [delta] section gives %r" % (env["git_config_parameters"], label, diff[0],
                                                                      got.get(diff[0]), key, v, ref.get(diff[0])),
                                     b0 + ["--config=" + cf], env)
            # ... in the form git itself writes the variable in (sq_quote_buf: a quote is '\'', an exclamation mark
            # '\!'), for a key given without a value (`git -c delta.navigate`: true), for keys in any case, and with
            # other people's entries before, between and after
            def sq(t):
                return "'" + t.replace("'", "'\\''").replace("!", "'\\!'") + "'"
            for key, v in (("file-added-label", "it's new!"), ("file-modified-label", "'"), ("file-renamed-label", "a'b'c"),
                           ("right-arrow", "!"), ("navigate", None), ("side-by-side", None), ("line-numbers", None),
                           ("Navigate", "true"), ("SIDE-BY-SIDE", "true"), ("file-Added-Label", "Q"),
                           ("hunk-label", "a=b"), ("hunk-label", "=")):
                with open(cfg2, "w") as f:
                    f.write("[delta]\n    %s%s\n" % (key.lower(), "" if v is None else ' = "%s"' % v))
                b0 = ["--paging=never", "--detect-dark-light=never", "--dark"]
                ref = sc(b0 + ["--config=" + cfg2])
                with open(cfg3, "w") as f:
                    f.write("[delta]\n    %s = %s\n" % (key.lower(), "false" if v in (None, "true") else "zzz"))
                for fi, item in enumerate(("'delta.%s%s'" % (key, "" if v is None else "=" + v.replace("'", "'\\''").replace("!", "'\\!'")),
                                           sq("delta." + key) + "=" + ("" if v is None else sq(v)))):
                    for around in ("%s", "'user.name'='it'\\''s me' %s", "%s 'alias.x'=''\\!'echo'", "'core.pager'= %s 'a.b'='delta.navigate=false'"):
                        env = {"git_config_parameters": around % item}
                        for label, cf in (("empty file", cfg), ("file says otherwise", cfg3)):
                            got = sc(b0 + ["--config=" + cf], env)
                            n += 1
                            distinct.add((key, v, fi, around, label))
                            diff = sorted(k for k in ref if ref.get(k) != got.get(k))
                            if diff:
                                note("gcp-git-spelling-not-honoured:" + ("no-value" if v is None else "case" if key != key.lower()
                                                                          else "quoted"),
                                     "GIT_CONFIG_PARAMETERS %s (%s) gives %s = %r; `%s%s` in the [delta] section gives %r"
                                     % (env["git_config_parameters"], label, diff[0], got.get(diff[0]), key.lower(),
                                        "" if v is None else " = " + v, ref.get(diff[0])), b0 + ["--config=" + cf], env)
        elif which == "reference" and cfgmode == "config":
            # a style option whose value names another key of the [delta] section (`plus-style = my-own-style`) has the
            # value of that key: the effective value comes from the gitconfig source all the same
            cfg2 = os.path.join(home, "ref.gitconfig")
            b0 = ["--paging=never", "--detect-dark-light=never", "--dark"]
            for o in REF_STYLE_OPTS:
                for val in ("bold 101 102", "raw", "syntax 103"):
                    with open(cfg2, "w") as f:
                        f.write("[delta]\n    %s = %s\n" % (o, val))
                    ref = sc(b0 + ["--config=" + cfg2])
                    for shape, text in (("main", "[delta]\n    %s = my-own-style\n    my-own-style = %s\n" % (o, val)),
                                        ("feature", "[delta]\n    features = ft\n    my-own-style = %s\n[delta \"ft\"]\n    %s = my-own-style\n" % (val, o))):
                        with open(cfg2, "w") as f:
                            f.write(text)
                        got = sc(b0 + ["--config=" + cfg2])
                        n += 1
                        distinct.add((o, val, shape))
                        diff = sorted(k for k in ref if ref.get(k) != got.get(k)) or sorted(k for k in got if k not in ref)
                        if diff:
                            note("style-reference-not-resolved:" + shape, "%s = my-own-style with my-own-style = %s (%s) gives %s = %r; "
                                 "%s = %s gives %r" % (o, val, shape, diff[0], got.get(diff[0]), o, val, ref.get(diff[0])),
                                 b0 + ["--config=" + cfg2], {"gitconfig_text": text})
        elif which == "flag-false" and cfgmode == "config":
            # a feature flag that the main section (or `git -c`) sets to false is false: the built-in feature is not
            # enabled by a `flag = true` of a lower-priority feature section either - everything is as if that
            # section did not mention the flag
            cfg2 = os.path.join(home, "ff.gitconfig")
            b0 = ["--paging=never", "--detect-dark-light=never", "--dark"]
            for flag in LAW_FEATS:
                for via in ("main", "gcp"):
                    with open(cfg2, "w") as f:
                        f.write("[delta]\n    features = x\n%s[delta \"x\"]\n    tabs = 3\n"
                                % ("    %s = false\n" % flag if via == "main" else ""))
                    env = {"git_config_parameters": "'delta.%s=false'" % flag} if via == "gcp" else None
                    ref = sc(b0 + ["--config=" + cfg2], env)
                    with open(cfg2, "a") as f:
                        f.write("    %s = true\n" % flag)
                    got = sc(b0 + ["--config=" + cfg2], env)
                    n += 1
                    distinct.add((flag, via))
                    diff = sorted(k for k in ref if ref.get(k) != got.get(k))
                    if diff:
                        note("false-flag-still-enables-feature:" + via, "[delta] %s = false (%s) and [delta \"x\"] %s = true: "
                             "%s = %r, without the line in the feature section %r"
                             % (flag, via, flag, diff[0], got.get(diff[0]), ref.get(diff[0])), b0 + ["--config=" + cfg2], env)
        elif which == "no-gitconfig" and cfgmode == "no-gitconfig":
            # --no-gitconfig ignores every gitconfig source, for every way of running delta: the real binary with a
            # HOME whose .gitconfig sets options, enables features and defines a theme must behave as with an empty HOME
            from driver import run_cli
            full = os.path.join(home, "home_full")
            empty = os.path.join(home, "home_empty")
            os.makedirs(full, exist_ok=True)
            os.makedirs(empty, exist_ok=True)
            with open(os.path.join(full, ".gitconfig"), "w") as f:
                f.write("[delta]\n    side-by-side = true\n    features = zebra-theme\n    plus-style = red\n"
                        "[delta \"zebra-theme\"]\n    dark = true\n    minus-style = blue\n[core]\n    pager = delta\n")
            data = b"diff --git a/f b/f\n--- a/f\n+++ b/f\n@@ -1 +1 @@\n-a\n+b\n"
            for extra, inp in ((["--show-config"], b""), (["--show-themes", "--dark"], b""), (["--show-themes"], data),
                               ([], data), (["--show-colors"], b""), (["--list-syntax-themes"], b"")):
                outs = []
                for h in (full, empty):
                    e = {"HOME": h, "XDG_CONFIG_HOME": h, "GIT_CONFIG_GLOBAL": os.path.join(h, ".gitconfig")}
                    st, out, err = run_cli(["--no-gitconfig", "--paging=never", "--dark"] + extra, inp, env=e, cwd=h)
                    outs.append((st, out))
                n += 1
                distinct.add(tuple(extra))
                if outs[0] != outs[1]:
                    note("no-gitconfig-reads-gitconfig:" + "+".join(extra), "`delta --no-gitconfig %s` depends on ~/.gitconfig: "
                         "status %d / %d, output %r vs %r" % (" ".join(extra), outs[0][0], outs[1][0], outs[0][1][:200],
                                                              outs[1][1][:200]), ["--no-gitconfig"] + extra, None)
            # ... whichever other option or variable names a gitconfig source: `--config <file>` and `git -c delta.x=y`
            # (GIT_CONFIG_PARAMETERS) are gitconfig sources too
            gcps = ["'delta.line-numbers'='true'", "'delta.features'='zebra-theme'", "'delta.plus-style'='red' 'delta.navigate'="]
            for extra, inp in ((["--show-config"], b""), ([], data)):
                e0 = {"HOME": empty, "XDG_CONFIG_HOME": empty, "GIT_CONFIG_GLOBAL": os.path.join(empty, ".gitconfig")}
                ref = run_cli(["--no-gitconfig", "--paging=never", "--dark"] + extra, inp, env=e0, cwd=empty)[:2]
                for cfgfile in (None, os.path.join(full, ".gitconfig")):
                    for gcp in [None] + gcps:
                        if cfgfile is None and gcp is None:
                            continue
                        for h in (full, empty):
                            e = {"HOME": h, "XDG_CONFIG_HOME": h, "GIT_CONFIG_GLOBAL": os.path.join(h, ".gitconfig")}
                            if gcp:
                                e["GIT_CONFIG_PARAMETERS"] = gcp
                            a = ["--no-gitconfig"] + (["--config=" + cfgfile] if cfgfile else []) + ["--paging=never", "--dark"] + extra
                            got = run_cli(a, inp, env=e, cwd=h)[:2]
                            n += 1
                            distinct.add((tuple(extra), cfgfile is None, gcp))
                            if got != ref:
                                note("no-gitconfig-reads-gitconfig:" + ("--config" if cfgfile else "") + ("+git-c" if gcp else ""),
                                     "`delta %s`%s depends on a gitconfig source: status %d / %d, output %r vs %r"
                                     % (" ".join(a), " with GIT_CONFIG_PARAMETERS=" + gcp if gcp else "", got[0], ref[0],
                                        got[1][:200], ref[1][:200]), a, {"git_config_parameters": gcp} if gcp else None)
        elif which == "three-ways":
            # a built-in feature is the same feature however it is enabled: by its flag, by --features, by
            # DELTA_FEATURES (features it enables in turn included)
            for f in LAW_FEATS:
                ref = sc(base + ["--" + f])
                for form, a, env in (("--features", base + ["--features=" + f], None),
                                     ("DELTA_FEATURES", base, {"features": f}),
                                     ("DELTA_FEATURES=+", base, {"features": "+" + f})):
                    got = sc(a, env)
                    n += 1
                    distinct.add((f, form))
                    diff = sorted(k for k in ref if ref.get(k) != got.get(k))
                    if diff:
                        note("feature-differs-by-way-of-enabling:" + cfgmode, "feature %s enabled through %s gives %s = %r, "
                             "enabled by its flag %r (%s)" % (f, form, diff[0], got.get(diff[0]), ref.get(diff[0]), cfgmode),
                             a, env)
        elif which == "independence":
            # an option nobody sets keeps its default whatever *other* option is given on the command line; the
            # documented dependencies are exempt: *-non-emph-style follows its base style, navigate-regex is built
            # from the labels, diff-highlight derives the emph styles from the base styles
            exempt = {("minus-style", "minus-non-emph-style"), ("plus-style", "plus-non-emph-style")}
            exempt |= set((l, "navigate-regex") for l in LAW_VALUES if l.endswith("-label"))
            for f in [None] + LAW_FEATS:
                fa = ["--" + f] if f else []
                ref = sc(base + fa)
                for o, v in sorted(LAW_VALUES.items()):
                    a = base + fa + ["--%s=%s" % (o, v)]
                    got = sc(a)
                    for p_ in ref:
                        if p_ == o or (o, p_) in exempt:
                            continue
                        if f == "diff-highlight" and (o, p_) in (("minus-style", "minus-emph-style"),
                                                                ("plus-style", "plus-emph-style")):
                            continue
                        n += 1
                        if got.get(p_) != ref.get(p_):
                            note("unset-option-changes:" + p_, "--%s=%s changes %s, which nobody sets, from %r to %r (feature "
                                 "%s, %s)" % (o, v, p_, ref.get(p_), got.get(p_), f, cfgmode), a, None)
                    distinct.add((o, f))
        else:
            dflt = sc(base)
            alone = dict((f, sc(base + ["--features=" + f])) for f in LAW_FEATS)
            for A, B in itertools.permutations(LAW_FEATS, 2):
                for form in ("features", "env"):
                    env = {"features": "%s %s" % (A, B)} if form == "env" else None
                    a = base + (["--features=%s %s" % (A, B)] if form == "features" else [])
                    got = sc(a, env)
                    for o in dflt:
                        x, y, d = alone[A].get(o), alone[B].get(o), dflt.get(o)
                        if B == "side-by-side" and o.startswith("minus-"):
                            continue    # not a setting of the feature: delta derives these from the defaults under side-by-side
                        if x != d and y != d and x != y:
                            n += 1
                            distinct.add((o, got.get(o)))
                            if got.get(o) != y:
                                note("last-listed-does-not-win:" + cfgmode, "features %r: %s = %r; %s alone gives %r, %s alone "
                                     "gives %r (%s)" % (A + " " + B, o, got.get(o), A, x, B, y, form), a, env)
    return {"n": n, "violations": list(viols.values()), "distinct": distinct}


def main(tier):
    t0 = time.time()
    build.ensure_built()
    cap = 50 if tier == "quick" else 1200
    deadline = t0 + cap
    K = 4 if tier == "quick" else 8
    seeds = list(range(K))
    subs = all_subsets()
    cases = []
    for gi, (c, e, m, n_, fl) in enumerate(graphs(tier)):
        # spread the 32 source subsets over the 8 plain probe options in 4 configurations;
        # quick: one of the four per graph, rotating, so that every subset meets every graph family
        rounds = range(4) if tier == "thorough" else [gi % 4]
        for rnd in rounds:
            subsets = {}
            for oi, opt in enumerate(PLAIN):
                if opt not in SHOWN:
                    continue
                subsets[opt] = subs[(rnd * 8 + oi + gi) % 32]
            # file-modified-label: set by the built-in navigate; sources rotate as well
            subsets["file-modified-label"] = subs[(gi * 5 + rnd * 7) % 32]
            cases.append(Scenario(c, e, m, n_, fl, subsets, gcp_format=(gi + rnd) % 2,
                                  builtin_override=("navsec" if gi % 3 == 0 else None)))
    step = max(1, len(cases) // 48)
    tasks = [(seeds, cases[i:i + step], deadline) for i in range(0, len(cases), step)]
    res = explore.pmap(run_task, tasks)
    dres = explore.pmap(run_determinism, [(list(range(8 if tier == "quick" else 32)), deadline)])
    lres = explore.pmap(run_laws, [("cli-wins", deadline), ("last-listed", deadline), ("independence", deadline), ("three-ways", deadline), ("gcp", deadline), ("reference", deadline), ("flag-false", deadline), ("no-gitconfig", deadline)])
    n = sum(r["n"] for r in res)
    orders = set()
    distinct = set()
    viols = []
    for r in res:
        orders |= r["orders"]
        distinct |= r["distinct"]
        viols.extend(r["violations"])
    for r in dres:
        viols.extend(r["violations"])
    for r in lres:
        viols.extend(r["violations"])
        distinct |= r["distinct"]
    best = {}
    for v in viols:
        if v.klass not in best:
            best[v.klass] = v
    viols = sorted(best.values(), key=lambda v: v.klass)
    caps = [1 for r in res if r["capped"]]
    cov = {
        "evaluations": n * 3 + sum(r["n"] for r in dres) + sum(r["n"] for r in lres),
        "builtin_feature_law_evaluations": sum(r["n"] for r in lres),
        "distinct_nontrivial": len(distinct),
        "rule": "evaluation = one (feature graph, source placement) materialised as gitconfig file + command "
                "line + environment, resolved by the real option processing (with --config, from $HOME, and "
                "with --no-gitconfig) under K hash seeds and read back through --show-config; non-trivial = "
                "distinct (option, winning value) pairs observed",
        "samples": [r["sample"] for r in res if r["sample"]][:2],
        "feature_graphs": len(list(graphs(tier))), "cases": len(cases), "hash_seeds": K,
        "distinct_hashmap_orders_observed": len(orders), "caps_hit": bool(caps), "exhaustive": not caps,
    }
    return report.finish(PROP, tier, "exploration", cov, viols, ASSUMPTIONS, t0, runner.seed())
