"""C04 - text that is not diff/blame/grep output passes through byte for byte.

E1 search: foreign lines (that look like construct openers but are not) placed where git puts
such text - before the first diff, after a `commit` line, between file sections - under every
configuration of the lattice and several calling processes. Oracle on each foreign line's step:
the bytes written during the step are exactly the input bytes + newline, after only the three
permitted rewrites (computed here, independently): CR removal before LF, U+FFFD for invalid
UTF-8, truncation beyond max-line-length.
"""
import explore
import producers
from explore import Problem, ViolationError
from lattice import Dim, base_opts, build_args, deviations

PROP = "C04"
LONG = b"lorem ipsum " * 6  # 72 bytes

FOREIGN = [
    b"Author: A U Thor <a@example.com>", b"Date:   Thu Jan 1 00:00:00 2020 +0000",
    b"    indented body line", b"", b"On branch main", b"Your branch is up to date.",
    b"- item", b"+1", b"-- ", b"@x", b"a:b:c", b"x.rs", b"x.rs:", b"deadbeef (not blame",
    b"{not json", b'{"type":"x"}', b"-", b"+", b"\\", b"Merge: 1111111 2222222",
    b"\x1b[31mred\x1b[m text", b"\x1b[1;32munterminated bold green", b"plain \x1b[38;5;200mpink\x1b[0m",
    b"col \x1b[31mred\r\x1b[m", b"\x1b[1mbold\r\x1b[m\x1b[K", b"    \x1b[31mindented coloured\x1b[m body",
    b" \x1b[32mone\x1b[m blank then colour", b"a\tb\tc", b"\ttab first", b"crlf line\r", b"\x1b[31mcrlf coloured\x1b[m\r",
    b"caf\xc3\xa9 \xe6\xbc\xa2", b"invalid \xff\xfe bytes", b"trunc \xc3", LONG,
    b"\x1b[33m" + LONG + b"\x1b[m", b"Notes:", b"rename", b"index", b"Binary", b"Submodule",
    b"commits", b"diffstat", b"# comment", b"* bullet", b"> quote", b"1 file changed",
    # diffstat look-alikes that do not start with a blank (tool output, `git log --graph --stat`)
    b"warning: src/a.rs | 12 problems found", b"| src/a.rs | 2 +-", b"x | 1 +",
    b"    Benchmark before | 31 ms, after | 12 ms", b" note | 3 of them", b"    a.rs | 2 +- (see above)",
    # several carriage returns (progress output): only a CR that ends the line is line-ending noise
    b"50%\r100%\r", b"a\rb\r\x1b[K", b"x\r\r", b"\x1b[32mok\r\x1b[m done\r\x1b[m",
    # far longer than any panel, far shorter than --max-line-length
    b"lorem ipsum " * 40,
    # words that open a part of a binary patch - only inside one; JSON that is not a record of rg
    b"delta now reads its input line by line", b"literal translation", b"literal 12", b'{"type":"end","job":17,"status":"ok"}',
    b'{"type":"summary","n":3}',
]

CALLERS = [None, ["git", "log", "-p"], ["git", "show"], ["git", "diff"],
           # revisions that contain a colon but name no file (`REV:path` would make the whole input a file's content)
           ["git", "show", "--oneline", ":/fix typo"], ["git", "show", "-s", "HEAD@{2024-01-01 10:00:00}"],
           ["git", "show", "--oneline", "HEAD^{/fix: typo}"], ["git", "show", "--format=%s", "main@{1}^{/a:b}"],
           ["git", "show", "--oneline", ":/fix: typo"],
           # ... and path arguments after `--` with a colon (pathspec magic)
           ["git", "show", "--oneline", "HEAD", "--", ".", ":!package-lock.json"]]
# callers that enable blame / grep parsing: only lines outside the documented shapes
SAFE_FOR_GREP_BLAME = [b"", b"On branch main", b"- item",
                       b"{not json", b"\x1b[31mred\x1b[m text", b"caf\xc3\xa9 \xe6\xbc\xa2",
                       b"plain words only", b"# comment"]


def expected_bytes(line, maxlen):
    """-> list of acceptable outputs for a passed-through line"""
    # 1. invalid UTF-8 -> U+FFFD (whole line decoded lossily)
    try:
        s = line.decode("utf-8")
        valid = True
    except UnicodeDecodeError:
        s = line.decode("utf-8", "replace")
        valid = False
    # 2. CR before LF is dropped (also when only escape sequences follow the CR)
    outs = []
    if "\r" in s:
        i = s.rfind("\r")
        import term
        if term.strip(s[i + 1:]) == "":
            s2 = s[:i] + s[i + 1:]
        else:
            s2 = s
    else:
        s2 = s
    b = s2.encode("utf-8")
    outs.append(b + b"\n")
    # `x\r\r\n`: the line reader takes `\r\n` as the line ending and the CR that is then last is dropped as well;
    # both are CRs at the end of the line (CRLF normalisation), the statement does not say how many may go
    import term
    s3 = s2
    while "\r" in s3:
        j = s3.rfind("\r")
        if term.strip(s3[j + 1:]) != "":
            break
        s3 = s3[:j] + s3[j + 1:]
        outs.append(s3.encode("utf-8") + b"\n")
    return outs, b, valid


def check_passthrough(line, out, maxlen, after_section=False):
    outs, b, valid = expected_bytes(line, maxlen)
    if out in outs:
        return
    if after_section and out.endswith(b"\n") and out.count(b"\n") > 1:
        # the step that ends a file section first writes what was still held back (the last changed lines, a
        # pending file header): complete rows, then the foreign line - judged on its own
        return check_passthrough(line, out[out[:-1].rfind(b"\n") + 1:], maxlen)
    if maxlen > 0 and len(line) > maxlen:
        # truncation beyond max-line-length: a prefix of the line's visible text (escape
        # sequences kept), optionally ending in the truncation mark
        import term
        vis_full = term.strip(b.decode("utf-8"))
        o = out[:-1] if out.endswith(b"\n") else None
        if o is not None:
            vis = term.strip(o.decode("utf-8", "replace"))
            if vis.endswith("→"):
                vis = vis[:-1]
            if vis_full.startswith(vis) and len(vis) < len(vis_full):
                return
    raise ViolationError("altered", "foreign line %r written as %r" % (line, out),
                         expected=outs[0], observed=out)


class Foreign(Problem):
    max_depth = 100

    def __init__(self, ocfg, k, alphabet, section_kinds):
        self.ocfg = ocfg
        self.k = k
        self.alphabet = alphabet
        self.section_kinds = section_kinds
        # directly after a hunk a line is foreign only if it cannot be a hunk line: it does not start with a blank,
        # `+`, `-` or `\\` and is not empty
        self.after_section = [l for l in alphabet if l[:1] not in (b" ", b"+", b"-", b"\\", b"")]

    # producer state: (phase, count, idx)
    #   phase 0: foreign lines before anything           -> commit line | section
    #   phase 1: after first commit line: foreign lines  -> section
    #   phase 2: inside section (idx = kind index, count = line index)
    #   phase 3: after section: commit line (forced)
    #   phase 4: foreign lines after second commit line
    def initial(self):
        return ((0, 0, 0), ())

    def _foreign(self, phase, count):
        return [(l, (phase, count + 1, 0), "foreign") for l in self.alphabet]

    def _sections(self):
        out = []
        for ki, (kind, body) in enumerate(self.section_kinds):
            lines, _ = producers.section(kind, 0, body)
            out.append((lines[0], (2, 1, ki), "section"))
        return out

    def successors(self, ps):
        phase, count, idx = ps
        commit = producers.COMMIT_BLOCK[0]
        if phase == 0:
            out = self._foreign(0, count) if count < self.k else []
            out.append((commit, (1, 0, 0), "commit"))
            if count == 0:
                out.extend(self._sections())
            return out
        if phase == 1:
            out = self._foreign(1, count) if count < self.k else []
            if count <= 1:
                out.extend(self._sections())
            return out
        if phase == 2:
            kind, body = self.section_kinds[idx]
            lines, _ = producers.section(kind, 0, body)
            if count < len(lines):
                return [(lines[count], (2, count + 1, idx), "section")]
            # after a file section: the next commit line - or foreign text directly (`git log --oneline -p`,
            # `git log --format=… -p`, `(git diff; some-command) | delta`)
            # ... or the empty line that `git log` writes between the last file of a commit and what follows
            info = producers.section(kind, 0, body)[1]
            after = self.after_section
            if kind == "binary_patch":
                # (directly after a part of a binary patch `literal N` / `delta N` opens the next part: a marker there)
                after = [l for l in after if not l.startswith((b"literal ", b"delta "))]
            return [(producers.COMMIT_BLOCK[0].replace(b"1", b"3"), (4, 0, 0), "commit")] + \
                [(l, (5, 1, 0), "foreign") for l in after] + \
                [(b"", (6, 0, idx), "blank" if not info["has_hunk"] else "blank-after-hunk")]
        if phase == 6:
            # (after the separator line; a second one, then text)
            out = [(l, (5, 1, 0), "foreign-after-blank") for l in self.after_section]
            if count == 0:
                out.append((b"", (6, 1, idx), "blank"))
            return out
        if phase == 4:
            return self._foreign(4, count) if count < min(self.k, 2) else []
        if phase == 5:
            return [(l, (5, count + 1, 0), "foreign") for l in self.after_section] if count < 2 else []
        return []

    def step(self, model, line, kind, out, ps):
        if kind == "foreign":
            check_passthrough(line, out, self.ocfg.get("maxlen", 3000), after_section=(ps[0] == 5 and ps[1] == 1))
        elif kind == "foreign-after-blank":
            check_passthrough(line, out, self.ocfg.get("maxlen", 3000))
        elif kind == "blank":
            # (after a file without hunks an empty line is no hunk line; directly after a hunk it may be one - an
            # unchanged empty line written without its blank - and is not judged)
            check_passthrough(line, out, self.ocfg.get("maxlen", 3000), after_section=True)
        return ()

    def can_end(self, ps):
        # after a foreign line the input may end: "interleaved correctly with rendered sections" - whatever delta
        # renders of the lines before it has been written by then, nothing of it may come after the text
        return ps[0] in (4, 5) and ps[1] >= 1

    def eof(self, model, out, ps):
        if out.strip(b"\n") != b"":
            raise ViolationError("rendered-after-text", "after the last line, a passed-through text line, was written, "
                                 "the end of input still produced %r: lines of the section before the text come out "
                                 "after it" % out[:200], observed=out)

    def model_key(self, model):
        return ()


DIMS = [
    Dim("view", [("unified", {}), ("sbs", {"side-by-side": True})]),
    Dim("line-numbers", [("off", {}), ("on", {"line-numbers": True})]),
    Dim("navigate", [("off", {}), ("on", {"navigate": True})]),
    Dim("hyperlinks", [("off", {}), ("on", {"hyperlinks": True})]),
    Dim("preset", [("none", {}), ("diff-so-fancy", {"diff-so-fancy": True}),
                   ("diff-highlight", {"diff-highlight": True}), ("color-only", {"color-only": True}),
                   ("raw", {"raw": True})]),
    Dim("markers", [("off", {}), ("on", {"keep-plus-minus-markers": True})]),
    Dim("tabs", [("8", {}), ("0", {"tabs": "0"}), ("2", {"tabs": "2"})]),
    Dim("max-line-length", [("3000", {}), ("0", {"max-line-length": "0", "_maxlen": 0}),
                            ("48", {"max-line-length": "48", "_maxlen": 48})]),
    Dim("commit-style", [("reserved", {}), ("raw", {"commit-style": "raw"}),
                         ("omit", {"commit-style": "omit"}), ("box", {"commit-decoration-style": "119 box ul"})]),
    Dim("width", [("40", {}), ("5", {"width": "5"}), ("variable", {"width": "variable"})]),
    Dim("syntax", [("none", {}), ("on", {"syntax-theme": "GitHub"})]),
    Dim("line-buffer-size", [("32", {}), ("0", {"line-buffer-size": "0"})]),
    # --relative-paths rewrites diffstat lines only; indented text that is not a diffstat line passes through
    Dim("relative", [("off", {}), ("on,GIT_PREFIX", {"relative-paths": True, "_git_prefix": "src/"}),
                     ("on", {"relative-paths": True})]),
]

SECTION_KINDS = [("modified", "ctx"), ("modified", "minusplus"), ("mode", "ctx"), ("binary", "ctx"),
                 ("rename", "ctx"), ("added", "nonl"), ("combined", "ctx"), ("combined", "minusplus"),
                 ("binary_patch", "ctx")]


def run_task(task):
    label, ov, caller, k, alphabet, kinds, deadline = task
    opts = {}
    ocfg = {"maxlen": 3000}
    for kk, v in ov.items():
        if kk.startswith("_"):
            ocfg[kk[1:]] = v
        else:
            opts[kk] = v
    args = build_args(base_opts(opts))
    drv = explore.get_driver(caller=caller)
    env = {"git_prefix": ocfg["git_prefix"], "cwd": "/work/repo"} if ocfg.get("git_prefix") else None
    try:
        cid = drv.mkconfig(args, env)
    except explore.Rejected as e:
        return {"label": label, "spec": ("foreign",), "rejected": str(e)}
    prob = Foreign(ocfg, k, alphabet, kinds)
    stats, viols = explore.bfs(prob, drv, cid, deadline=deadline)
    drv.drop(cid)
    for v in viols:
        v.args = args
        v.config_label = label
        v.caller = caller
    d = stats.merge_dict()
    d.update(label=label, spec=("foreign", "k=%d" % k), violations=viols, args=args, caller=caller)
    return d


ASSUMPTIONS = [
    "alphabet of %d foreign lines (props/c04.py) that do not begin with a construct-opening marker; "
    "placed before the first diff, after a commit line, directly after a file section, and after a file section + commit line"
    % len(FOREIGN),
    "text directly after a file section (no commit line in between): only lines that cannot be hunk lines (not "
    "starting with a blank, `+`, `-`, `\\`; not empty); not demanded: diffstat-shaped lines "
    "(` path | N +-`) under --relative-paths (an explicit request to rewrite them; none in the alphabet); "
    "hyperlinks on raw lines (need a terminal)",
    "grep/blame callers only with lines outside the documented grep/blame shapes",
]


def main(tier):
    import runner
    d = 1 if tier == "quick" else 2
    configs = deviations(DIMS, d)
    tasks = []
    k = 2 if tier == "quick" else 3
    for label, ov, n in configs:
        tasks.append((label, ov, None, k if n <= 1 else 2, FOREIGN,
                      SECTION_KINDS if n <= 1 else SECTION_KINDS[:2]))
    for c in CALLERS[1:]:
        tasks.append(("caller=" + " ".join(c), {}, c, k, FOREIGN, SECTION_KINDS))
        tasks.append(("caller=" + " ".join(c) + ",sbs", {"side-by-side": True}, c, 2, FOREIGN, SECTION_KINDS[:2]))
    for c in (["git", "grep", "-n", "x"], ["git", "blame", "f.rs"], ["rg", "x"]):
        tasks.append(("caller=" + " ".join(c), {}, c, k, SAFE_FOR_GREP_BLAME, SECTION_KINDS[:2]))
    cap = 45 if tier == "quick" else 600
    return runner.run_e1(PROP, tier, tasks, run_task, ASSUMPTIONS, cap,
                         {"config_deviation_bound": d, "configurations": len(configs),
                          "foreign_alphabet": len(FOREIGN)})
