"""C07 - side-by-side view: correct panels, fixed geometry, lossless wrapping.

E2: all line contents up to L cells over {a, wide 漢, e+combining acute, tab} as a removed line,
an added line, an unchanged line and as one half of a pair differing in one token, across a
geometry set (every width from the narrowest that fits the gutters up to 26 and 40/41/80, wrap
limits, ASCII and default wrap symbols, right-alignment thresholds, marker settings, both fill
methods - ansi on a pty). Per output row, with the checker's own width model:
  * total width <= W, and the right panel starts at the same column on every row;
  * removed cells only in the left panel, added only in the right, unchanged text in both panels
    of the same row;
  * joining a line's fragments (wrap symbols, right-prefix symbol and right-alignment padding
    dropped) gives back the tab-expanded line; a cut appears only after the configured number of
    rows and then ends in the truncation mark;
  * paired lines start on the same row; every line appears once per side it belongs to, in order.
"""
import itertools
import time

import build
import explore
import obs
import report
import runner
import term
from build import MachineryError
from explore import Violation
from lattice import base_opts, build_args

PROP = "C07"
CELLS = ["a", "漢", "é", "\t"]
TABS = 3
TRUNC = "→"


def contents(L):
    out = []
    for n in range(1, L + 1):
        for combo in itertools.product(CELLS, repeat=n):
            out.append("".join(combo))
    return out


def expand(s):
    return s.replace("\t", " " * TABS)


class Geom(object):
    def __init__(self, W, wrap_max, symbols, right_percent, markers, fill, ln=True, dist="1", mll=None):
        self.dist = dist            # max-line-distance: "1" pairs i-th with i-th; "0.6" = delta's own pairing
        self.mll = mll              # --max-line-length
        self.W = W
        self.wrap_max = wrap_max
        self.symbols = symbols      # (left, right, right-prefix)
        self.right_percent = right_percent
        self.markers = markers
        self.fill = fill
        self.ln = ln

    def label(self):
        return "W=%d,wrap=%s,sym=%s,rp=%s,markers=%s,fill=%s,ln=%s%s%s" % (
            self.W, self.wrap_max, "".join(self.symbols), self.right_percent, self.markers,
            self.fill, self.ln, ",distance=" + self.dist if self.dist != "1" else "",
            ",max-line-length=" + self.mll if self.mll else "")

    def opts(self):
        o = {"side-by-side": True, "tabs": str(TABS), "wrap-max-lines": self.wrap_max,
             "wrap-left-symbol": self.symbols[0], "wrap-right-symbol": self.symbols[1],
             "wrap-right-prefix-symbol": self.symbols[2],
             "wrap-right-percent": str(self.right_percent), "max-line-distance": self.dist}
        if self.mll:
            o["max-line-length"] = self.mll
        if self.fill == "ansi":
            o["width"] = None           # width comes from the pty
            o["line-fill-method"] = "ansi"
        else:
            o["width"] = str(self.W)
            o["line-fill-method"] = "spaces"
        if self.markers:
            o["keep-plus-minus-markers"] = True
        if not self.ln:
            o["line-numbers-left-format"] = ""
            o["line-numbers-right-format"] = ""
        if self.mll == "wide-gutter":
            # a double-width character as gutter decoration (a full-width bar)
            del o["max-line-length"]
            o["line-numbers-left-format"] = "{nm:^4}\uff5c"
            o["line-numbers-right-format"] = "{np:^4}\uff5c"
        if self.mll == "asym-gutter":
            # gutters of different widths: each panel wraps at its own text width
            del o["max-line-length"]
            o["line-numbers-left-format"] = "{nm:^4}\uff5c"
            o["line-numbers-right-format"] = "{np:^8}\uff5c"
        if self.mll == "asym-gutter-left":
            del o["max-line-length"]
            o["line-numbers-left-format"] = "{nm:^8}\uff5c"
            o["line-numbers-right-format"] = "{np:^4}\uff5c"
        if self.mll == "wide-gutter-plain":
            # ... and as the whole gutter: a format string without placeholder
            del o["max-line-length"]
            o["line-numbers-left-format"] = "\uff5c"
            o["line-numbers-right-format"] = "\uff5c"
        return o


def split_fragments(rows_panels, sym, markers=False):
    """rows_panels: list of panel objects (one per output row) for one side, in order, restricted
    to the rows of ONE line. Returns (joined text, n rows, truncated?) or raises ValueError."""
    left, right, prefix = sym
    joined = ""
    right_aligned_next = False
    n = 0
    truncated = False
    for p in rows_panels:
        t = p.text
        n += 1
        if markers and n > 1:
            # with markers kept, every continuation row starts with a blank marker column
            if t[:1] != " ":
                raise ValueError("continuation row does not start with a blank marker column: %r" % t)
            t = t[1:]
        if right_aligned_next:
            t2 = t.lstrip(" ")
            if not t2.startswith(prefix):
                raise ValueError("right-aligned continuation does not start with the prefix symbol: %r" % t)
            t = t2[len(prefix):]
            right_aligned_next = False
        ts = t.rstrip(" ")
        if ts.endswith(left):
            joined += ts[:-len(left)]
        elif ts.endswith(right):
            joined += ts[:-len(right)]
            right_aligned_next = True
        else:
            if ts.endswith(TRUNC):
                truncated = True
                joined += ts[:-len(TRUNC)]
            else:
                joined += t
    return joined, n, truncated


def check_case(out, g, spec):
    """spec: dict(minus=[lines], plus=[lines], zero_before=[...]) describing one hunk:
    zero lines, then minus lines, then plus lines. Returns error string or None."""
    rows = term.decode(out)
    sbs = []
    for row in rows:
        r = obs.observe_sbs_row(row) if g.ln else observe_by_column(row, g)
        if r is not None:
            sbs.append(r)
    if not sbs:
        return "no side-by-side rows at all"
    # geometry
    starts = set()
    for r in sbs:
        w = term.text_width(r.row.text)
        if w > g.W:
            return "row is %d columns wide, configured width %d: %r" % (w, g.W, r.row.text)
        left_w = term.text_width("".join(t for t, _, _ in r.left.gutter) + r.left.text)
        starts.add(left_w)
    if len(starts) != 1:
        return "the right panel does not start at the same column on every row: %r" % sorted(starts)
    # panel purity
    for r in sbs:
        if r.left.kind == "plus":
            return "added text in the left panel: %r" % r.left.text
        if r.right.kind == "minus":
            return "removed text in the right panel: %r" % r.right.text
    # group rows into lines per side: a line starts on a row whose panel carries a number (or,
    # without gutters, on the first row / a row following a row that did not end in a wrap symbol)
    def groups(side):
        out_ = []
        cur = None
        prev_wrapped = False
        for idx, r in enumerate(sbs):
            p = getattr(r, side)
            starts_line = (p.number != "") if g.ln else \
                (p.kind in ("minus", "plus", "zero") and not prev_wrapped)
            if starts_line:
                cur = {"row": idx, "kind": p.kind if p.kind != "empty" else
                       {"ln_minus": "minus", "ln_plus": "plus", "ln_zero": "zero"}.get(p.numclass, "empty"),
                       "panels": [p]}
                out_.append(cur)
            elif p.kind in ("minus", "plus", "zero") or (prev_wrapped and cur is not None):
                if cur is None:
                    raise ValueError("continuation row before any line in the %s panel" % side)
                cur["panels"].append(p)
            ts = p.text.rstrip(" ")
            prev_wrapped = ts.endswith(g.symbols[0]) or ts.endswith(g.symbols[1])
        return out_
    try:
        gl = groups("left")
        gr = groups("right")
    except ValueError as e:
        return str(e)
    pre = spec.get("pre", [])
    want_left = [("zero", z) for z in pre + spec["zero"]] + [("minus", m) for m in spec["minus"]]
    want_right = [("zero", z) for z in pre + spec["zero"]] + [("plus", p) for p in spec["plus"]]
    for side, got, want in (("left", gl, want_left), ("right", gr, want_right)):
        if len(got) != len(want):
            return "%s panel shows %d lines, the hunk has %d for that side" % (side, len(got), len(want))
        for gg, (kind, line) in zip(got, want):
            if gg["kind"] != kind:
                return "%s panel: a %s line where a %s line was expected" % (side, gg["kind"], kind)
            try:
                joined, n, truncated = split_fragments(gg["panels"], g.symbols, g.markers)
            except ValueError as e:
                return str(e)
            exp = expand(line)
            if g.markers:
                exp = {"minus": "-", "plus": "+", "zero": " "}[kind] + exp
            # --wrap-max-lines N: a line may be wrapped N times, i.e. occupy N+1 rows
            limit = None if g.wrap_max == "unlimited" else int(g.wrap_max) + 1
            if truncated:
                if limit is None or n < limit:
                    return ("%s line %r is cut after %d rows although wrap-max-lines allows %s"
                            % (kind, exp, n, g.wrap_max))
                if not exp.startswith(joined.rstrip(" ")) and not exp.rstrip(" ").startswith(joined.rstrip(" ")):
                    return "%s line %r truncated to something that is not a prefix: %r" % (kind, exp, joined)
            else:
                if joined.rstrip(" ") != exp.rstrip(" "):
                    return ("%s line: joining the fragments gives %r, the line is %r"
                            % (kind, joined.rstrip(" "), exp.rstrip(" ")))
                if limit is not None and n > limit:
                    return "%s line occupies %d rows, limit %d" % (kind, n, limit)
    # unchanged lines: same row on both sides
    nz = len(pre) + len(spec["zero"])
    for i in range(nz):
        if gl[i]["row"] != gr[i]["row"]:
            return "unchanged line starts on row %d left but row %d right" % (gl[i]["row"], gr[i]["row"])
    # paired lines (max-line-distance 1: i-th with i-th) start on the same row
    for i in range(min(len(spec["minus"]), len(spec["plus"])) if g.dist == "1" else 0):
        if gl[nz + i]["row"] != gr[nz + i]["row"]:
            return "paired lines start on different rows (%d, %d)" % (gl[nz + i]["row"], gr[nz + i]["row"])
    return None


def observe_by_column(row, g):
    return obs.observe_sbs_row(row)


def make_input(spec):
    lines = ["diff --git a/f.txt b/f.txt", "--- a/f.txt", "+++ b/f.txt"]
    if spec.get("pre"):
        # an earlier hunk with one-digit line numbers; the main hunk then starts at line 12345, so the
        # number gutter of the second hunk is wider than that of the first
        lines += ["@@ -3,%d +3,%d @@" % (len(spec["pre"]), len(spec["pre"]))] + [" " + z for z in spec["pre"]]
    start = 12345 if spec.get("pre") else 1
    ms, ps = spec.get("starts", (start, start))
    lines += ["@@ -%d,%d +%d,%d @@" % (ms, len(spec["zero"]) + len(spec["minus"]), ps,
                                      len(spec["zero"]) + len(spec["plus"]))]
    lines += [" " + z for z in spec["zero"]] + ["-" + m for m in spec["minus"]] + ["+" + p for p in spec["plus"]]
    return ("\n".join(lines) + "\n").encode("utf-8")


def specs_for(content):
    """the roles a content string is exercised in"""
    yield {"zero": [], "minus": [content], "plus": []}
    yield {"zero": [], "minus": [], "plus": [content]}
    yield {"zero": [content], "minus": [], "plus": []}
    # one half of a pair whose other half differs in one token (appended / changed first cell)
    yield {"zero": [], "minus": [content], "plus": [content + "b"]}
    yield {"zero": [], "minus": ["b" + content], "plus": [content]}
    yield {"zero": ["z"], "minus": [content, "q"], "plus": [content[:-1] + "c" if len(content) > 1 else "c"]}
    # two hunks whose line numbers have different numbers of digits
    yield {"pre": ["p"], "zero": [content], "minus": [content + "a"], "plus": ["a" + content]}
    # the old-file numbers gain a digit inside the hunk (9999 -> 10000) while the new-file numbers do not
    yield {"starts": (9998, 9990), "zero": [content], "minus": [content + "a", content], "plus": ["a" + content]}
    yield {"starts": (9990, 9998), "zero": [content], "minus": [content + "a"], "plus": ["a" + content, content]}
    # a removed line whose partner (under delta's own pairing) comes after added lines that are no partners
    yield {"zero": [], "minus": [content + " same same same q"], "plus": ["zz", "yy", content + " same same same r"]}
    yield {"zero": ["z"], "minus": ["uu", content + " same same same q"], "plus": ["zz", "yy", "xx", content + " same same same r", "ww"]}


def run_task(task):
    g, cont, deadline = task
    args = build_args(base_opts(g.opts()))
    pty = (24, g.W) if g.fill == "ansi" else None
    drv = explore.get_driver(pty=pty)
    try:
        cid = drv.mkconfig(args)
    except explore.Rejected as e:
        return {"label": g.label(), "rejected": str(e)[:100], "n": 0}
    n = 0
    wrapped = 0
    distinct = set()
    viols = {}
    capped = False
    sample = None
    # (the two-hunk case widens the number gutter by one column: it needs a panel that still holds a
    # double-width character plus the wrap symbol)
    wide_ok = (g.W // 2 - 7 - (1 if g.markers else 0)) >= 3
    cases = [(c, s) for c in cont for s in specs_for(c) if wide_ok or not (s.get("pre") or s.get("starts"))]
    for i in range(0, len(cases), 256):
        if time.time() > deadline:
            capped = True
            break
        chunk = cases[i:i + 256]
        res = explore.render_robust(drv, cid, [make_input(s) for _, s in chunk], timeout=10.0)
        for (c, s), r in zip(chunk, res):
            n += 1
            if isinstance(r, Exception):
                err = "hang or death: %s" % r
            elif r.panic:
                err = "panic: " + r.panic
            else:
                err = check_case(r.out, g, s)
                distinct.add(explore.h64(r.out))
                if g.symbols[0].encode() in r.out:
                    wrapped += 1
            if sample is None and n > 50:
                sample = {"geometry": g.label(), "hunk": s}
            if err:
                import re
                klass = "sbs:" + re.sub(r"\d+", "N", re.sub(r"'[^']*'|\[[^\]]*\]", "_", err.split(":")[0]))[:60]
                if klass not in viols or len(c) < viols[klass].extra["len"]:
                    v = Violation(klass, err, make_input(s).split(b"\n")[:-1], None, None, None,
                                  {"len": len(c), "geometry": g.label()})
                    v.args = args
                    v.pty = pty
                    v.config_label = g.label()
                    viols[klass] = v
    drv.drop(cid)
    return {"label": g.label(), "n": n, "wrapped": wrapped, "distinct": distinct,
            "violations": list(viols.values()), "capped": capped, "sample": sample, "args": args}


DEFAULT_SYM = ("↵", "↴", "…")
ASCII_SYM = ("<", ">", "~")


def geometries(tier):
    gs = []
    # narrowest width considered: a panel must hold a double-width character plus the wrap symbol
    # (6 gutter columns + 3), i.e. W >= 18; narrower widths are exercised for termination and
    # crashes only (C03)
    widths = list(range(18, 27)) + [40, 41, 80]
    if tier == "quick":
        widths = [18, 19, 20, 21, 23, 26, 41]
    for W in widths:
        gs.append(Geom(W, "2", DEFAULT_SYM, 37, False, "spaces"))
    for W in ([18, 19, 26] if tier == "quick" else widths):
        gs.append(Geom(W, "unlimited", DEFAULT_SYM, 37, False, "spaces"))
        if W % 3 == 0:
            gs.append(Geom(W, "0", DEFAULT_SYM, 37, False, "spaces"))
        gs.append(Geom(W, "1", ASCII_SYM, 37, False, "spaces"))
    for W in ([18, 21, 20] if tier == "quick" else [18, 19, 20, 21, 24, 40]):
        gs.append(Geom(W, "3", DEFAULT_SYM, 1, False, "spaces"))
        gs.append(Geom(W, "2", DEFAULT_SYM, 99, False, "spaces"))
        gs.append(Geom(W, "2", DEFAULT_SYM, 37, True, "spaces"))
        gs.append(Geom(W, "2", DEFAULT_SYM, 37, False, "ansi"))
        gs.append(Geom(W, "unlimited", ASCII_SYM, 50, True, "ansi"))
    # delta's own pairing (default distance) instead of the forced i-th with i-th
    for W in ([20, 40] if tier == "quick" else [18, 20, 24, 40, 41]):
        gs.append(Geom(W, "2", DEFAULT_SYM, 37, False, "spaces", dist="0.6"))
        gs.append(Geom(W, "unlimited", DEFAULT_SYM, 37, False, "spaces", dist="0.6"))
    # unlimited wrapping with a small --max-line-length: wrapping is lossless, so the limit must not cut
    for W in ([20, 40] if tier == "quick" else [18, 20, 24, 40]):
        gs.append(Geom(W, "unlimited", DEFAULT_SYM, 37, False, "spaces", mll="10"))
    for W in ([24, 40] if tier == "quick" else [22, 24, 40, 41]):
        gs.append(Geom(W, "unlimited", DEFAULT_SYM, 37, False, "spaces", mll="wide-gutter"))
        gs.append(Geom(W, "2", DEFAULT_SYM, 37, False, "spaces", mll="wide-gutter"))
    asym = []
    for W in ([28, 30] if tier == "quick" else [28, 29, 30, 32, 40]):
        for wrap in ("2", "unlimited"):
            asym.append(Geom(W, wrap, DEFAULT_SYM, 37, False, "spaces", mll="asym-gutter"))
            asym.append(Geom(W, wrap, DEFAULT_SYM, 37, False, "spaces", mll="asym-gutter-left"))
    # with markers kept one more column is needed
    return asym + [g for g in gs if (g.W // 2 - 6 - (1 if g.markers else 0)) >= 3]


def run_plain_gutter(task):
    """a gutter that is a format string without placeholder (no numbers, so the row model above does not apply): with
    unlimited wrapping nothing of a long line may be cut off - joining the rows' text gives the line back, no
    truncation mark - whatever the width of the gutter text in columns (`|`, a full-width bar, two characters)"""
    _ = task
    drv = explore.get_driver()
    viols = []
    n = 0
    line = "".join("w%02d " % i for i in range(30)).strip()
    data = ("diff --git a/f b/f\n--- a/f\n+++ b/f\n@@ -1 +1 @@\n-x\n+" + line + "\n").encode()
    for gutter in ("|", "\uff5c", "::", "\uff5c\uff5c"):
        for W in (30, 31, 40, 41, 57):
            o = base_opts({"side-by-side": True, "width": str(W), "wrap-max-lines": "unlimited",
                           "line-numbers-left-format": gutter, "line-numbers-right-format": gutter})
            args = build_args(o)
            cid = drv.mkconfig(args)
            r = drv.render1(cid, data)
            drv.drop(cid)
            n += 1
            if r.panic:
                continue
            text = "".join(row.text for row in term.decode(r.out))
            joined = "".join(ch for ch in text if ch.isalnum())
            want = "".join(ch for ch in line if ch.isalnum())
            if ("\u2192" in text or want not in joined) and not viols:
                v = explore.Violation("sbs:plain-gutter-loses-text", "gutter %r, width %d, unlimited wrapping: the rows do not "
                                      "give the line back (truncation mark: %s)" % (gutter, W, "\u2192" in text),
                                      data.split(b"\n")[:-1])
                v.args = args
                v.config_label = "plain-gutter=%r,W=%d" % (gutter, W)
                viols.append(v)
    return {"n": n, "violations": viols}


ASSUMPTIONS = [
    "cells: 'a', wide '漢', 'e'+U+0301, tab (tabs=3); display width from the checker's own table "
    "(East Asian W/F = 2, Mn/Me/Cf = 0), on which it agrees with delta for these characters "
    "(self-test at start)",
    "lines are told apart by the number in the panel gutter (line numbers are always on in "
    "side-by-side view); wrap symbols never occur in the generated contents",
    "pairing forced with max-line-distance 1 so that the i-th removed and i-th added lines are a pair",
    "syntax highlighting off in this sweep",
]


def main(tier):
    t0 = time.time()
    build.ensure_built()
    # width self-test: the checker's table and delta must agree on the alphabet
    from driver import Driver
    d = Driver()
    for ch in CELLS[:3] + ["a漢é"]:
        if d.width(ch) != term.text_width(ch):
            raise MachineryError("width tables disagree on %r" % ch)
    d.shutdown()
    L = 5 if tier == "quick" else 7
    cont = contents(L)
    cap = 50 if tier == "quick" else 900
    deadline = t0 + cap
    gs = geometries(tier)
    tasks = []
    for g in gs:
        step = 700
        for i in range(0, len(cont), step):
            tasks.append((g, cont[i:i + step], deadline))
    res = explore.pmap(run_task, tasks)
    n = sum(r["n"] for r in res)
    distinct = set()
    viols = []
    caps = set()
    rejected = {}
    samples = []
    wrapped = 0
    for r in res:
        if "rejected" in r:
            rejected[r["label"]] = r["rejected"]
            continue
        distinct |= r["distinct"]
        wrapped += r["wrapped"]
        if r["capped"]:
            caps.add(r["label"])
        if r["sample"] and len(samples) < 4:
            samples.append(r["sample"])
        viols.extend(r["violations"])
    best = {}
    for v in viols:
        if v.klass not in best or v.extra["len"] < best[v.klass].extra["len"]:
            best[v.klass] = v
    viols = sorted(best.values(), key=lambda v: v.klass)
    pres = explore.pmap(run_plain_gutter, [None])
    for r in pres:
        n += r["n"]
        viols.extend(r["violations"])
    if not n:
        raise MachineryError("nothing evaluated")
    cov = {
        "evaluations": n, "distinct_nontrivial": wrapped,
        "rule": "one evaluation = one hunk rendered side by side under one geometry; non-trivial = "
                "at least one line was wrapped (wrap symbol present); distinct outputs: %d" % len(distinct),
        "samples": samples, "geometries": len(gs), "content_strings": len(cont), "max_cells": L,
        "geometries_rejected_by_delta": rejected, "caps_hit": sorted(caps), "exhaustive": not caps,
    }
    return report.finish(PROP, tier, "exploration", cov, viols, ASSUMPTIONS, t0, runner.seed())
