"""C17 - git blame output keeps code and attribution; colours follow commits.

E1 *to a fixpoint*: blame lines of K commits (a boundary commit, a renamed-file column, authors
with spaces / wide characters / one letter, three time zones) under palettes of 2, 3 and 4 colours
and three blame formats containing {commit}. The key of a state is (H2 snapshot, colour of each
commit so far, previous commit), a finite set, so the search saturates: every reachable state of
the colour machine is visited and every transition from it taken, at unbounded depth.
Oracle on every transition: code unchanged (tabs expanded), line number shown, metadata shown and
blanked only when the commit repeats, same commit as predecessor => same background, different
commit => different background, a commit seen before keeps its colour unless that equals the
predecessor's.
"""
import os
import time

import explore
import term
from explore import Problem, ViolationError
from lattice import classify_style, base_opts, build_args, R

PROP = "C17"
TABS = 4

COMMITS = [
    # (hash column, author, timestamp, key as delta shows it)
    ("0123456789abcdef", "A U Thor", "2020-01-01 00:00:00 +0000"),
    ("^89abcde", "漢字漢字 名前漢字漢字", "2021-02-03 04:05:06 +0100"),
    ("fedcba98 old/name.rs", "B", "2019-12-31 23:59:59 -0330"),
    ("7777777777", "Zoë Q", "2022-06-07 08:09:10 +0530"),
]
# the renamed-file column as git prints it: padded to the longest path, paths may contain blanks
COMMITS_PADDED = [
    ("0123456789abcdef src/short.rs       ", "A U Thor", "2020-01-01 00:00:00 +0000"),
    ("^89abcde my dir/long file name.rs", "漢字漢字 名前漢字漢字", "2021-02-03 04:05:06 +0100"),
    ("fedcba98 old/name.rs             ", "B", "2019-12-31 23:59:59 -0330"),
]
# git blame -b / blame.blankBoundary: the hash column of a boundary commit is blank
COMMITS_BLANK = [
    ("0123456789abcdef", "A U Thor", "2020-01-01 00:00:00 +0000"),
    ("                ", "Old Timer", "2001-02-03 04:05:06 +0100"),
    ("fedcba9876543210", "B", "2019-12-31 23:59:59 -0330"),
    # (a blame can have several boundary commits: lines with a blank hash column and another author or time
    # belong to another commit)
    ("                ", "Ann Cient", "1999-09-09 09:09:09 +0000"),
]
# a renamed-file column whose name contains " (" (see known_findings.json)
COMMITS_PAREN = [
    ("0123456789abcdef g.txt    ", "A U Thor", "2020-01-01 00:00:00 +0000"),
    ("^89abcde f (1).txt", "Alice A", "2021-02-03 04:05:06 +0100"),
]
# the last one: code that quotes a blame line (delta's own src/handlers/blame.rs has such lines)
CODES = [" code x", "\ttab", "", " é漢 y", " //ea82f2d0 (Dan Davison 2021-08-22 18:20:19 -0700 120) let x"]
NUMBERS = [7, 123]


def blame_line(ci, number, code, commits=None):
    h, author, ts = (commits or COMMITS)[ci]
    return ("%s (%s %s %d)%s" % (h, author, ts, number, code)).encode("utf-8")


def parse_row(row, sep="│"):
    """-> (meta text, number text, code text, bg class set) for a rendered blame row, or None"""
    runs = [(t, st) for t, st in row.runs if t != ""]
    text = row.text
    if text.count(sep) < 2:
        return None
    bgs = set()
    for t, st in runs:
        if st[1] is not None:
            bgs.add(st[1])
    for _, bg in row.erase:
        if bg is not None:
            bgs.add(bg)
    a = text.index(sep)
    b = text.index(sep, a + 1)
    return text[:a], text[a + 1:b], text[b + 1:], bgs


class Blame(Problem):
    max_depth = 40

    def __init__(self, K, palette, fmt_fields, commits=None):
        self.commits = commits or COMMITS
        self.K = K
        # (palette entries given as strings - hex colours - are not checked for membership)
        self.palette = None if isinstance(palette[0], str) else set(("i", p) for p in palette)
        self.fmt_fields = fmt_fields      # which of commit/author/timestamp the format shows
        self.alphabet = []
        for ci in range(K):
            for code in CODES:
                for n in NUMBERS:
                    if n == 123 and code != CODES[0]:
                        continue
                    self.alphabet.append((ci, n, code))

    # model: (colours per commit, previous commit, previous background, pending lines, partial row)
    # a blame row is written in two parts (metadata at once, the code with the next input line), so
    # only complete output rows are parsed and matched, in order, against the pending input lines
    def initial(self):
        return (0, ((), None, None, (), b""))

    def successors(self, ps):
        return [(blame_line(ci, n, code, self.commits), 0, "blame:%d:%d:%d" % (ci, n, CODES.index(code)))
                for ci, n, code in self.alphabet]

    def step(self, model, line, kind, out, ps):
        colors, prev_key, prev_bg, pending, partial = model
        _, ci, n, codei = kind.split(":")
        pending = pending + ((int(ci), int(n), int(codei)),)
        return self._consume((colors, prev_key, prev_bg, pending, partial), out, False)

    def eof(self, model, out, ps):
        m = self._consume(model, out, True)
        if m[3]:
            raise ViolationError("line-dropped", "%d blame line(s) never shown" % len(m[3]))

    def _consume(self, model, out, at_eof):
        colors, prev_key, prev_bg, pending, partial = model
        data = partial + out
        if at_eof:
            complete, partial = data, b""
        else:
            k = data.rfind(b"\n")
            complete, partial = data[:k + 1], data[k + 1:]
        pending = list(pending)
        for row in term.decode(complete):
            if row.text == "" and not row.erase:
                continue
            if not pending:
                raise ViolationError("extra-row", "a row %r with no pending blame line" % row.text, observed=row.text)
            ci, n, codei = pending.pop(0)
            colors, prev_key, prev_bg = self._row(colors, prev_key, prev_bg, row, ci, n, CODES[codei])
        return (colors, prev_key, prev_bg, tuple(pending), partial)

    def _row(self, colors, prev_key, prev_bg, row, ci, n, code):
        colors = dict(colors)
        parsed = parse_row(row)
        if parsed is None:
            raise ViolationError("not-rendered", "blame line not rendered as blame: %r" % row.text,
                                 observed=row.text)
        meta, num, shown_code, bgs = parsed
        if len(bgs) != 1:
            raise ViolationError("mixed-background", "row carries backgrounds %r" % sorted(bgs), observed=sorted(bgs))
        bg = next(iter(bgs))
        if self.palette is not None and bg not in self.palette:
            raise ViolationError("colour-not-in-palette", "background %r is not a palette colour" % (bg,))
        want_code = code.replace("\t", " " * TABS)
        if shown_code.rstrip(" ") != want_code.rstrip(" "):
            raise ViolationError("code-altered", "code %r shown as %r" % (want_code, shown_code),
                                 expected=want_code, observed=shown_code)
        if num.strip() != str(n):
            raise ViolationError("wrong-line-number", "line %d shown with number %r" % (n, num))
        h, author, ts = self.commits[ci]
        key = ci
        commit_shown = h.split(" ")[0].lstrip("^")[:7]
        if key == prev_key:
            if meta.strip() != "":
                raise ViolationError("metadata-not-blanked", "consecutive line of the same commit repeats "
                                     "metadata %r" % meta.strip(), observed=meta)
            if bg != prev_bg:
                raise ViolationError("same-commit-different-colour", "consecutive lines of one commit have "
                                     "backgrounds %r then %r" % (prev_bg, bg))
        else:
            for field, val in (("commit", commit_shown), ("author", author[:6]), ("timestamp", ts)):
                if field in self.fmt_fields and val not in meta:
                    raise ViolationError("metadata-missing:" + field, "%s %r not shown in %r" % (field, val, meta),
                                         expected=val, observed=meta)
            # the renamed-file column is not part of the attribution
            fname = h.strip().split(" ", 1)[1].strip() if " " in h.strip() else None
            if fname and any(len(t.strip("()")) > 2 and t.strip("()") in meta for t in fname.split(" ")):
                raise ViolationError("file-column-in-metadata", "the file name column %r shows up in the metadata %r"
                                     % (fname, meta), observed=meta)
            if prev_bg is not None and bg == prev_bg:
                raise ViolationError("different-commit-same-colour", "line attributed to another commit has the "
                                     "predecessor's background %r" % (bg,))
            if key in colors and colors[key] != prev_bg and bg != colors[key]:
                raise ViolationError("colour-not-kept", "commit seen before with background %r reappears with %r "
                                     "although the line above has %r" % (colors[key], bg, prev_bg))
        colors[key] = bg
        return (tuple(sorted(colors.items())), key, bg)


FORMATS = {
    "default": (None, ("commit", "author", "timestamp")),
    "commit-author": ("{commit:<8} {author:>12}", ("commit", "author")),
    "author-commit-time": ("{author:<10} {commit:>9} {timestamp:<26}", ("commit", "author", "timestamp")),
}


def run_task(task):
    label, K, palette, fmt, ov, deadline = task
    padded = label.endswith(",padded-file-column")
    commits = COMMITS_PADDED if padded else COMMITS_BLANK if label.endswith(",blank-boundary") else \
        COMMITS_PAREN if label.endswith(",paren-file-column") else None
    opts = dict(ov)
    opts["tabs"] = str(TABS)
    opts["blame-palette"] = " ".join(str(p) for p in palette)
    if FORMATS[fmt][0]:
        opts["blame-format"] = FORMATS[fmt][0]
    args = build_args(base_opts(opts))
    caller = ["git", "blame", "f.rs"]
    drv = explore.get_driver(caller=caller)
    cid = drv.mkconfig(args)
    prob = Blame(K, palette, FORMATS[fmt][1], commits)
    stats, viols = explore.bfs(prob, drv, cid, deadline=deadline)
    drv.drop(cid)
    saturated = stats.max_depth < prob.max_depth and not stats.cap_hit
    for v in viols:
        v.args = args
        v.caller = caller
        v.config_label = label
    d = stats.merge_dict()
    d.update(label=label, spec=("K=%d" % K, "P=%d" % len(palette), fmt), violations=viols, args=args,
             caller=caller, saturated=saturated)
    return d


def run_clock(task):
    """E4, the wall clock as an environment answer: the real binary under a clock shim (shims/steptime.c) that
    starts `age` seconds after the commit's time and advances `step` ms with every reading. With delta's default
    (humanised, "20 seconds ago") timestamps the attribution of a line must not depend on when it is read:
    3 lines of commit X, 1 of Y, 1 of X -> rows 2-3 blanked and coloured like row 1, row 4 differently,
    row 5 like row 1."""
    import subprocess
    import build
    from driver import base_env
    ages, steps = task
    shims = build.ensure_shims()
    o = base_opts({"tabs": str(TABS), "blame-palette": "127 128 129", "blame-timestamp-output-format": None})
    args = build_args(o)
    t_commit = 1577836800      # 2020-01-01 00:00:00 +0000
    lines = [blame_line(0, 1, " a"), blame_line(0, 2, " b"), blame_line(0, 3, " c"),
             blame_line(3, 4, " d"), blame_line(0, 5, " e")]
    data = b"".join(l + b"\n" for l in lines)
    viols = {}
    n = 0
    outs = set()
    for age in ages:
        for step in steps:
            env = base_env()
            env.update({"LD_PRELOAD": os.path.join(shims, "steptime.so"), "VERIF_TIME_BASE": str(t_commit + age),
                        "VERIF_TIME_STEP_MS": str(step), "DELTA_VERIF_PARENT_ARGS": "git blame f.rs"})
            p = subprocess.run([build.BIN] + args, input=data, env=env, stdout=subprocess.PIPE, stderr=subprocess.PIPE,
                               timeout=30)
            n += 1
            rows = [parse_row(r) for r in term.decode(p.stdout) if r.text != ""]
            err = None
            if p.returncode != 0 or len(rows) != 5 or any(r is None for r in rows):
                err = ("not-rendered", "status %d, %d rows" % (p.returncode, len(rows)))
            else:
                outs.add(tuple(r[0].strip() for r in rows))
                bg = [next(iter(r[3])) if len(r[3]) == 1 else None for r in rows]
                if rows[1][0].strip() or rows[2][0].strip():
                    err = ("metadata-not-blanked", "consecutive lines of one commit repeat the metadata: %r / %r"
                           % (rows[1][0].strip(), rows[2][0].strip()))
                elif not (bg[0] == bg[1] == bg[2]) or bg[0] is None:
                    err = ("same-commit-different-colour", "three consecutive lines of one commit have backgrounds %r" % (bg[:3],))
                elif bg[3] == bg[2]:
                    err = ("different-commit-same-colour", "backgrounds %r" % (bg,))
                elif bg[4] != bg[0]:
                    err = ("colour-not-kept", "commit reappears with background %r, had %r, line above has %r" % (bg[4], bg[0], bg[3]))
            if err and err[0] + ":clock" not in viols:
                v = explore.Violation(err[0] + ":clock", "commit %d s old when delta starts, clock advancing %d ms per reading: %s"
                                      % (age, step, err[1]), lines)
                v.args = args
                v.caller = ["git", "blame", "f.rs"]
                v.env = {"LD_PRELOAD": "steptime.so", "VERIF_TIME_BASE": str(t_commit + age), "VERIF_TIME_STEP_MS": str(step)}
                v.config_label = "clock,age=%d,step=%d" % (age, step)
                viols[err[0] + ":clock"] = v
    return {"n": n, "violations": list(viols.values()), "outs": outs}


ASSUMPTIONS = [
    "K commits (one boundary commit '^', one with a renamed-file column, authors with spaces, wide "
    "characters and a single letter, three time zones) x 4 code contents x 2 line numbers",
    "palettes of 2, 3, 4 pairwise distinct reserved colours; three blame formats containing {commit}; "
    "timestamps shown through --blame-timestamp-output-format (wall clock removed)",
    "the search runs until no new (snapshot, colour assignment, previous commit) state appears",
]


def main(tier):
    import runner
    import report
    import build
    t0 = time.time()
    build.ensure_built()
    deadline = t0 + (50 if tier == "quick" else 600)
    K = 3 if tier == "quick" else 4
    tasks = []
    for P in ([127, 128], [127, 128, 129], [127, 128, 129, 130]):
        for fmt in FORMATS:
            k = K
            tasks.append(("K=%d,P=%d,fmt=%s" % (k, len(P), fmt), k, P, fmt, {}))
        tasks.append(("K=%d,P=%d,hyperlinks" % (K, len(P)), K, P, "default", {"hyperlinks": True}))
        tasks.append(("K=%d,P=%d,width=30" % (K, len(P)), K, P, "default", {"width": "30"}))
        tasks.append(("K=3,P=%d,padded-file-column" % len(P), 3, P, "default", {}))
        tasks.append(("K=4,P=%d,blank-boundary" % len(P), 4, P, "default", {}))
    tasks.append(("K=2,P=3,paren-file-column", 2, [127, 128, 129], "default", {}))
    # palettes whose colours are distinct but are painted alike in 256-colour mode (a shipped theme has such a palette)
    for tc in ("never", "always"):
        tasks.append(("K=3,P=4,hex-palette,true-color=" + tc, 3, ["#1e1e2e", "#181825", "#313244", "#45475a"], "default",
                      {"true-color": tc}))
    res = explore.pmap(run_task, [t + (deadline,) for t in tasks])
    states = transitions = renders = 0
    maxd = 0
    snaps = set()
    outs = set()
    caps = []
    samples = []
    viols = []
    per = {}
    unsat = []
    for r in res:
        states += r["states"]
        transitions += r["transitions"]
        renders += r["renders"]
        maxd = max(maxd, r["max_depth"])
        snaps |= r["snapshots"]
        outs |= r["step_outputs"]
        if r["cap_hit"]:
            caps.append("%s: %s" % (r["label"], r["cap_hit"]))
        if not r["saturated"] and not r["violations"]:
            unsat.append(r["label"])
        if r["samples"] and len(samples) < 3:
            samples.append({"config": r["label"], "history": r["samples"][0]})
        per[r["label"]] = {"states": r["states"], "transitions": r["transitions"], "depth_reached": r["max_depth"],
                           "saturated": r["saturated"]}
        viols.extend(r["violations"])
    best = {}
    for v in viols:
        cur = best.get(v.klass)
        if cur is None or len(v.history or []) < len(cur.history or []):
            best[v.klass] = v
    viols = sorted(best.values(), key=lambda v: v.klass)
    # the wall clock: every age 0..150 s and around the later thresholds of the humanised form (45/90 min, 22/36 h),
    # x clock steps (frozen, 0.4 s, 1.3 s per reading)
    ages = list(range(0, 151)) + [a + d for a in (2700, 5400, 79200, 129600) for d in (-3, -2, -1, 0, 1, 2)]
    if tier == "quick":
        ages = ages[::3] + [44, 45, 89, 90]
    cres = explore.pmap(run_clock, [(ages[i::8], (0, 400, 1300)) for i in range(8)])
    for r in cres:
        for v in r["violations"]:
            if v.klass not in best:
                best[v.klass] = v
                viols.append(v)
    # CLI conformance through a stub git
    import c16
    stream = b"".join(blame_line(ci, n + 1, CODES[n % 4]) + b"\n" for n, ci in enumerate([0, 0, 1, 2, 0, 1, 1]))
    nconf, mism = c16.conformance([(build_args(base_opts({"tabs": str(TABS), "blame-palette": "127 128 129"})),
                                    ["git", "blame", "f.rs"], stream)])
    if mism:
        raise build.MachineryError("stub conformance failed: " + mism[0])
    cov = {"states": states, "transitions": transitions, "traces_validated_against_impl": renders + nconf,
           "samples": samples, "renders_of_real_code": renders, "stub_conformance_runs": nconf,
           "max_depth": maxd, "distinct_snapshots": len(snaps), "distinct_step_outputs": len(outs),
           "clock_runs": sum(r["n"] for r in cres), "clock_distinct_metadata_texts": len(set().union(*[r["outs"] for r in cres])),
           "per_search": per, "searches_not_saturated": unsat, "caps_hit": caps,
           "exhaustive": not caps and not unsat}
    return report.finish(PROP, tier, "model_checking", cov, viols, ASSUMPTIONS, t0, runner.seed())
