"""C17 - git blame output keeps code and attribution; colours follow commits.

E1 *to a fixpoint*: blame lines of K commits (a boundary commit, a renamed-file column, authors
with spaces / wide characters / one letter, three time zones) under palettes of 2, 3 and 4 colours
and three blame formats containing {commit}. The key of a state is (H2 snapshot, colour of each
commit so far, previous commit), a finite set, so the search saturates: every reachable state of
the colour machine is visited and every transition from it taken, at unbounded depth.
Oracle on every transition: code unchanged (tabs expanded), line number shown, metadata shown and
blanked only when the commit repeats, same commit as predecessor => same background, different
commit => different background, a commit seen before keeps its colour unless that equals the
predecessor's.
"""
import time

import explore
import term
from explore import Problem, ViolationError
from lattice import classify_style, base_opts, build_args, R

PROP = "C17"
TABS = 4

COMMITS = [
    # (hash column, author, timestamp, key as delta shows it)
    ("0123456789abcdef", "A U Thor", "2020-01-01 00:00:00 +0000"),
    ("^89abcde", "漢字漢字 名前漢字漢字", "2021-02-03 04:05:06 +0100"),
    ("fedcba98 old/name.rs", "B", "2019-12-31 23:59:59 -0330"),
    ("7777777777", "Zoë Q", "2022-06-07 08:09:10 +0530"),
]
# the renamed-file column as git prints it: padded to the longest path, paths may contain blanks
COMMITS_PADDED = [
    ("0123456789abcdef src/short.rs       ", "A U Thor", "2020-01-01 00:00:00 +0000"),
    ("^89abcde my dir/long file name.rs", "漢字漢字 名前漢字漢字", "2021-02-03 04:05:06 +0100"),
    ("fedcba98 old/name.rs             ", "B", "2019-12-31 23:59:59 -0330"),
]
CODES = [" code x", "\ttab", "", " é漢 y"]
NUMBERS = [7, 123]


def blame_line(ci, number, code, commits=None):
    h, author, ts = (commits or COMMITS)[ci]
    return ("%s (%s %s %d)%s" % (h, author, ts, number, code)).encode("utf-8")


def parse_row(row, sep="│"):
    """-> (meta text, number text, code text, bg class set) for a rendered blame row, or None"""
    runs = [(t, st) for t, st in row.runs if t != ""]
    text = row.text
    if text.count(sep) < 2:
        return None
    bgs = set()
    for t, st in runs:
        if st[1] is not None:
            bgs.add(st[1])
    for _, bg in row.erase:
        if bg is not None:
            bgs.add(bg)
    a = text.index(sep)
    b = text.index(sep, a + 1)
    return text[:a], text[a + 1:b], text[b + 1:], bgs


class Blame(Problem):
    max_depth = 40

    def __init__(self, K, palette, fmt_fields, commits=None):
        self.commits = commits or COMMITS
        self.K = K
        self.palette = set(("i", p) for p in palette)
        self.fmt_fields = fmt_fields      # which of commit/author/timestamp the format shows
        self.alphabet = []
        for ci in range(K):
            for code in CODES:
                for n in NUMBERS:
                    if n == 123 and code != CODES[0]:
                        continue
                    self.alphabet.append((ci, n, code))

    # model: (colours per commit, previous commit, previous background, pending lines, partial row)
    # a blame row is written in two parts (metadata at once, the code with the next input line), so
    # only complete output rows are parsed and matched, in order, against the pending input lines
    def initial(self):
        return (0, ((), None, None, (), b""))

    def successors(self, ps):
        return [(blame_line(ci, n, code, self.commits), 0, "blame:%d:%d:%d" % (ci, n, CODES.index(code)))
                for ci, n, code in self.alphabet]

    def step(self, model, line, kind, out, ps):
        colors, prev_key, prev_bg, pending, partial = model
        _, ci, n, codei = kind.split(":")
        pending = pending + ((int(ci), int(n), int(codei)),)
        return self._consume((colors, prev_key, prev_bg, pending, partial), out, False)

    def eof(self, model, out, ps):
        m = self._consume(model, out, True)
        if m[3]:
            raise ViolationError("line-dropped", "%d blame line(s) never shown" % len(m[3]))

    def _consume(self, model, out, at_eof):
        colors, prev_key, prev_bg, pending, partial = model
        data = partial + out
        if at_eof:
            complete, partial = data, b""
        else:
            k = data.rfind(b"\n")
            complete, partial = data[:k + 1], data[k + 1:]
        pending = list(pending)
        for row in term.decode(complete):
            if row.text == "" and not row.erase:
                continue
            if not pending:
                raise ViolationError("extra-row", "a row %r with no pending blame line" % row.text, observed=row.text)
            ci, n, codei = pending.pop(0)
            colors, prev_key, prev_bg = self._row(colors, prev_key, prev_bg, row, ci, n, CODES[codei])
        return (colors, prev_key, prev_bg, tuple(pending), partial)

    def _row(self, colors, prev_key, prev_bg, row, ci, n, code):
        colors = dict(colors)
        parsed = parse_row(row)
        if parsed is None:
            raise ViolationError("not-rendered", "blame line not rendered as blame: %r" % row.text,
                                 observed=row.text)
        meta, num, shown_code, bgs = parsed
        if len(bgs) != 1:
            raise ViolationError("mixed-background", "row carries backgrounds %r" % sorted(bgs), observed=sorted(bgs))
        bg = next(iter(bgs))
        if bg not in self.palette:
            raise ViolationError("colour-not-in-palette", "background %r is not a palette colour" % (bg,))
        want_code = code.replace("\t", " " * TABS)
        if shown_code.rstrip(" ") != want_code.rstrip(" "):
            raise ViolationError("code-altered", "code %r shown as %r" % (want_code, shown_code),
                                 expected=want_code, observed=shown_code)
        if num.strip() != str(n):
            raise ViolationError("wrong-line-number", "line %d shown with number %r" % (n, num))
        h, author, ts = self.commits[ci]
        key = ci
        commit_shown = h.split(" ")[0].lstrip("^")[:7]
        if key == prev_key:
            if meta.strip() != "":
                raise ViolationError("metadata-not-blanked", "consecutive line of the same commit repeats "
                                     "metadata %r" % meta.strip(), observed=meta)
            if bg != prev_bg:
                raise ViolationError("same-commit-different-colour", "consecutive lines of one commit have "
                                     "backgrounds %r then %r" % (prev_bg, bg))
        else:
            for field, val in (("commit", commit_shown), ("author", author[:6]), ("timestamp", ts)):
                if field in self.fmt_fields and val not in meta:
                    raise ViolationError("metadata-missing:" + field, "%s %r not shown in %r" % (field, val, meta),
                                         expected=val, observed=meta)
            if prev_bg is not None and bg == prev_bg:
                raise ViolationError("different-commit-same-colour", "line attributed to another commit has the "
                                     "predecessor's background %r" % (bg,))
            if key in colors and colors[key] != prev_bg and bg != colors[key]:
                raise ViolationError("colour-not-kept", "commit seen before with background %r reappears with %r "
                                     "although the line above has %r" % (colors[key], bg, prev_bg))
        colors[key] = bg
        return (tuple(sorted(colors.items())), key, bg)


FORMATS = {
    "default": (None, ("commit", "author", "timestamp")),
    "commit-author": ("{commit:<8} {author:>12}", ("commit", "author")),
    "author-commit-time": ("{author:<10} {commit:>9} {timestamp:<26}", ("commit", "author", "timestamp")),
}


def run_task(task):
    label, K, palette, fmt, ov, deadline = task
    padded = label.endswith(",padded-file-column")
    opts = dict(ov)
    opts["tabs"] = str(TABS)
    opts["blame-palette"] = " ".join(str(p) for p in palette)
    if FORMATS[fmt][0]:
        opts["blame-format"] = FORMATS[fmt][0]
    args = build_args(base_opts(opts))
    caller = ["git", "blame", "f.rs"]
    drv = explore.get_driver(caller=caller)
    cid = drv.mkconfig(args)
    prob = Blame(K, palette, FORMATS[fmt][1], COMMITS_PADDED if padded else None)
    stats, viols = explore.bfs(prob, drv, cid, deadline=deadline)
    drv.drop(cid)
    saturated = stats.max_depth < prob.max_depth and not stats.cap_hit
    for v in viols:
        v.args = args
        v.caller = caller
        v.config_label = label
    d = stats.merge_dict()
    d.update(label=label, spec=("K=%d" % K, "P=%d" % len(palette), fmt), violations=viols, args=args,
             caller=caller, saturated=saturated)
    return d


ASSUMPTIONS = [
    "K commits (one boundary commit '^', one with a renamed-file column, authors with spaces, wide "
    "characters and a single letter, three time zones) x 4 code contents x 2 line numbers",
    "palettes of 2, 3, 4 pairwise distinct reserved colours; three blame formats containing {commit}; "
    "timestamps shown through --blame-timestamp-output-format (wall clock removed)",
    "the search runs until no new (snapshot, colour assignment, previous commit) state appears",
]


def main(tier):
    import runner
    import report
    import build
    t0 = time.time()
    build.ensure_built()
    deadline = t0 + (50 if tier == "quick" else 600)
    K = 3 if tier == "quick" else 4
    tasks = []
    for P in ([127, 128], [127, 128, 129], [127, 128, 129, 130]):
        for fmt in FORMATS:
            k = K
            tasks.append(("K=%d,P=%d,fmt=%s" % (k, len(P), fmt), k, P, fmt, {}))
        tasks.append(("K=%d,P=%d,hyperlinks" % (K, len(P)), K, P, "default", {"hyperlinks": True}))
        tasks.append(("K=%d,P=%d,width=30" % (K, len(P)), K, P, "default", {"width": "30"}))
        tasks.append(("K=3,P=%d,padded-file-column" % len(P), 3, P, "default", {}))
    res = explore.pmap(run_task, [t + (deadline,) for t in tasks])
    states = transitions = renders = 0
    maxd = 0
    snaps = set()
    outs = set()
    caps = []
    samples = []
    viols = []
    per = {}
    unsat = []
    for r in res:
        states += r["states"]
        transitions += r["transitions"]
        renders += r["renders"]
        maxd = max(maxd, r["max_depth"])
        snaps |= r["snapshots"]
        outs |= r["step_outputs"]
        if r["cap_hit"]:
            caps.append("%s: %s" % (r["label"], r["cap_hit"]))
        if not r["saturated"] and not r["violations"]:
            unsat.append(r["label"])
        if r["samples"] and len(samples) < 3:
            samples.append({"config": r["label"], "history": r["samples"][0]})
        per[r["label"]] = {"states": r["states"], "transitions": r["transitions"], "depth_reached": r["max_depth"],
                           "saturated": r["saturated"]}
        viols.extend(r["violations"])
    best = {}
    for v in viols:
        cur = best.get(v.klass)
        if cur is None or len(v.history or []) < len(cur.history or []):
            best[v.klass] = v
    viols = sorted(best.values(), key=lambda v: v.klass)
    # CLI conformance through a stub git
    import c16
    stream = b"".join(blame_line(ci, n + 1, CODES[n % 4]) + b"\n" for n, ci in enumerate([0, 0, 1, 2, 0, 1, 1]))
    nconf, mism = c16.conformance([(build_args(base_opts({"tabs": str(TABS), "blame-palette": "127 128 129"})),
                                    ["git", "blame", "f.rs"], stream)])
    if mism:
        raise build.MachineryError("stub conformance failed: " + mism[0])
    cov = {"states": states, "transitions": transitions, "traces_validated_against_impl": renders + nconf,
           "samples": samples, "renders_of_real_code": renders, "stub_conformance_runs": nconf,
           "max_depth": maxd, "distinct_snapshots": len(snaps), "distinct_step_outputs": len(outs),
           "per_search": per, "searches_not_saturated": unsat, "caps_hit": caps,
           "exhaustive": not caps and not unsat}
    return report.finish(PROP, tier, "model_checking", cov, viols, ASSUMPTIONS, t0, runner.seed())
