"""C03 - delta never crashes or hangs.

Layer 1 (E1, no grammar): every sequence up to depth D over a hostile-line alphabet, deduplicated
by the H2 snapshot, i.e. every (reachable state, hostile line) pair; oracle: the render returns
(no panic, no fatal() after the option set was accepted, no hang, bounded output).
Layer 2 (E2, bytes): all strings up to length L over 18 byte-class representatives injected as
one line in five machine states.
Built with overflow checks on. A deterministic subset is replayed through the plain CLI.
"""
import itertools
import os
import re
import time

import explore
import runner
from build import MachineryError
from driver import Hang, DriverDied, run_cli
from explore import Problem, ViolationError, Violation
from lattice import Dim, base_opts, build_args, deviations

PROP = "C03"
H40 = b"0123456789abcdef0123456789abcdef01234567"

HOSTILE = [
    b"@@ foo @@", b"@@ -1 +1 @@", b"@@ -1,2 +1,2 @@ fn x()", b"@@ -99999999999999999999,1 +1 @@",
    b"@@ -1,99999999999999999999 +1 @@", b"@@@ -1 -1 +1 @@@", b"@@@ -1,2 -1,2 +1,2 @@@ x", b"@@",
    b"@@ -1 +1", b"@@ -0,0 +0,0 @@", b"@@@@ -1 -1 -1 +1 @@@@",
    b"diff --git ", b"diff --git a/x b/x", b"diff --git a/x.rs b/y.rs", b"diff --cc f", b"diff -u a b",
    b"diff --git a/\xc3\xa9 b/\xc3\xa9", b"diff", b"diff --git a b c d e",
    b"--- ", b"+++ ", b"--- a/x", b"+++ b/x", b"--- a/x\t2020-01-01", b"+++ /dev/null",
    b"rename from ", b"rename to y", b"copy from x", b"copy to ", b'--- "', b'+++ "', b'rename from "', b'copy to "',
    b'diff --git "a/x" "b/x"', b'--- "a/x', b'rename to "y',
    b"old mode ", b"new mode 100755", b"new mode 1", b"deleted file mode", b"deleted file mode 100644",
    b"new file mode 100644", b"index 1..2", b"similarity index 100%",
    b"Binary files ", b"Binary files a/x and b/x differ", b"Only in a: x",
    b"Submodule x 1..2:", b"Submodule x 1234567..89abcde (rewind):", b"  > commit msg",
    b"-Subproject commit " + H40, b"+Subproject commit " + H40, b"-Subproject commit x",
    b"++<<<<<<< HEAD", b"++||||||| base", b"++=======", b"++>>>>>>> br", b"<<<<<<< HEAD", b"=======",
    b"++<<<<<<<", b"++>>>>>>>",
    b"commit " + H40, b"commit x", b"commit " + H40 + b" (HEAD -> main)",
    b" f.rs | 2 +-", b" 1 file changed, 1 insertion(+)", b" a => b | 0",
    b" x", b"-x", b"+x", b"-", b"+", b" ", b"", b"-\xe6\xbc\xa2a", b"+a\xe6\xbc\xa2\xe6\xbc\xa2", b" \xe6\xbc\xa2",
    b"-\xc3\xa9", b"+\xe2\x82\xac", b"+\xf0\x9f\x98\x80", b"\xe2\x82\xac\xe2\x82\xac",
    b"\xc3\xa9x", b"\xf0\x9f\x98\x80", b" \xe2\x82\xac", b"-\xe2\x82\xac\xe2\x82\xac", b"+ \xe2\x82\xac",
    b"\\ No newline at end of file", b"\\",
    b"\x1b[1;2;3 q\xe2\x82\xac", b"\x1b[1;2 !q\xe2\x82\xac\xe2\x82\xac\xe2\x82\xac\x1b[31mz",
    b"\x1b]8;;http://x\x1b\\t\x1b]8;;\x1b\\", b"\x1b", b"x\x1b", b"\x1b[31m-x\x1b[m", b"\x1b[32m+\x1b[m\x1b[32mx\x1b[m",
    b"\x1b[31", b"-\x1b[38;5;1mx", b"\x1b[1mdiff --git a/x b/x\x1b[m", b"\x1b[36m@@ -1 +1 @@\x1b[m",
    b"\xff\xfe", b"-\xff", b"+\xc3", b"x\r", b"-x\r", b"\r",
    b"-" + b"y" * 4000, b" " + b"\xe6\xbc\xa2" * 50, b"+" + b"\t" * 40,
    H40[:8] + b" (A U Thor 2020-01-01 00:00:00 +0000 1) x",
    b"^" + H40[:7] + b" f.rs (A 2020-01-01 00:00:00 +0000 12) y",
    H40[:8] + b" (A U Thor 2020-13-45 99:00:00 +0000 1) x",
    H40[:8] + b" (\xe6\xbc\xa2\xe6\xbc\xa2\xe6\xbc\xa2 2020-01-01 00:00:00 +0000 1) x",
    H40[:8] + b" (A 2020-01-01 00:00:00 +9999 1)",
    # blame lines as `git blame --color-by-age` / `--color-lines` hand them over: some coloured, some not
    b"\x1b[31m" + H40[8:16] + b" (B 2023-01-01 00:00:00 +0000 2) y\x1b[m",
    b"\x1b[36m" + H40[:8] + b" (A U Thor 2020-01-01 00:00:00 +0000 3) z\x1b[m",
    H40[8:16] + b" (B 2023-01-01 00:00:00 +0000 4) w",
    # grep hits whose code begins with zero-padded digits and a colon (times), with and without a file name
    b"schedule.txt:09:00 standup", b"server.log:00:15:32 error", b"\tcase x: return 1", b"a.rs:007:x", b"a.rs-08-y",
    b"f.rs:0:x", b"f.rs:99999999999999999999:x",
    b'{"type":"match","data":{"path":{"text":"f.rs"},"lines":{"text":"ab\\n"},"line_number":0,"absolute_offset":0,"submatches":[]}}',
    b'{"type":"match","data":{"path":{"text":"f.rs"},"lines":{"text":"a\\t\xe2\x82\xac\xe2\x82\xac\xe2\x82\xac\xe2\x82\xac\\t\\n"},"line_number":3,"absolute_offset":0,"submatches":[{"match":{"text":"a"},"start":0,"end":1}]}}',
    b"\x1b[1;35m+foo\x1b\t[m", b"\x1b[1;35m-a\tb\x1b[\t0m", b"\x1b[1;<m\xe2\x82\xac\xe2\x82\xac\xe2\x82\xac\x1b[31mz", b"-\x1b[35mmoved\x1b", b"+\x1b[1;36mmoved\x1b[m", b"\x1bP\xe2\x9c\x85q\x1b[31mz",
    # a tab where the marker columns of a combined-diff line are, plain and in moved-line colours
    b"+\tx", b"\x1b[1;35m+\tfoo\x1b[m", b"\x1b[1;36m \t+z\x1b[m", b"\x1b[1;35m-\t\x1b[m",
    b"f.rs:1:x", b"f.rs-2-y", b"f.rs=3=fn z()", b"--", b"f.rs:x", b"a:b:c", b"\x1b[35mf.rs\x1b[m\x1b[36m:\x1b[m\x1b[32m1\x1b[m\x1b[36m:\x1b[mx",
    b'{"type":"match","data":{"path":{"text":"f.rs"},"lines":{"text":"ab\\n"},"line_number":1,"absolute_offset":0,"submatches":[{"match":{"text":"a"},"start":0,"end":1}]}}',
    b'{"type":"match","data":{"path":{"text":"f.rs"},"lines":{"text":"\xe2\x82\xac\\n"},"line_number":1,"absolute_offset":0,"submatches":[{"match":{"text":"x"},"start":1,"end":2}]}}',
    b'{"type":"match","data":{"path":{"text":"f.rs"},"lines":{"text":"ab\\n"},"line_number":1,"absolute_offset":0,"submatches":[{"match":{"text":"a"},"start":5,"end":9}]}}',
    b'{"type":"match","data":{"path":{"text":"f.rs"},"lines":{"text":"ab\\n"},"line_number":1,"absolute_offset":0,"submatches":[{"match":{"text":"a"},"start":1,"end":0}]}}',
    b'{"type":"context","data":{"path":{"text":"f.rs"},"lines":{"text":"\\tq\\n"},"line_number":2,"absolute_offset":0,"submatches":[]}}',
    b'{"type":"begin","data":{"path":{"text":"f.rs"}}}', b'{"type":"end","data":{}}', b"{", b'{"type":"match"}',
    b'{"type":"match","data":{"path":{"text":"f.rs"},"lines":{"text":"\\ta\\tb\\n"},"line_number":4,"absolute_offset":0,"submatches":[]}}',
    b'{"type":"match","data":{"path":{"bytes":"Zg=="},"lines":{"bytes":"/w=="},"line_number":null,"absolute_offset":0,"submatches":[]}}',
]

BYTE_CLASSES = [b"\x1b", b"[", b"]", b"\\", b"\x07", b"m", b"K", b"0", b";", b":", b" ", b"#",
                b"\xc3\xa9", b"\xe2\x82\xac", b"\xc2\x9b", b"a", b"?", b"\x18"]

# prefixes putting the machine into five states before the injected line
STATE_PREFIXES = {
    "unknown": [],
    "hunk": [b"diff --git a/x.rs b/x.rs", b"--- a/x.rs", b"+++ b/x.rs", b"@@ -1,3 +1,3 @@", b" a", b"-b"],
    "combined": [b"diff --cc x.rs", b"--- a/x.rs", b"+++ b/x.rs", b"@@@ -1,3 -1,3 +1,3 @@@", b"  a"],
    "grep": [b"x.rs:1:foo"],
    "blame": [H40[:8] + b" (A U Thor 2020-01-01 00:00:00 +0000 1) x"],
}
STATE_CALLER = {"grep": ["git", "grep", "-n", "foo"], "blame": ["git", "blame", "x.rs"]}

CALLERS = [None, ["git", "diff"], ["git", "diff", "--word-diff"], ["git", "show", "HEAD:x.rs"],
           ["git", "log", "-p"], ["git", "blame", "f.rs"], ["git", "grep", "-n", "x"],
           ["git", "grep", "-W", "x"], ["rg", "x"]]

DIMS = [
    Dim("view", [("unified", {}), ("sbs", {"side-by-side": True}), ("ln", {"line-numbers": True}),
                 ("sbs-ln", {"side-by-side": True, "line-numbers": True})]),
    Dim("preset", [("none", {}), ("color-only", {"color-only": True}), ("raw", {"raw": True}),
                   ("diff-so-fancy", {"diff-so-fancy": True}),
                   ("diff-highlight", {"diff-highlight": True})]),
    Dim("width", [("80", {})] + [(str(w), {"width": str(w)}) for w in
                                 (1, 2, 3, 4, 5, 6, 7, 8, 9, 10, 11, 12, 79)]
        + [("variable", {"width": "variable"})]),
    Dim("max-line-length", [("3000", {}), ("0", {"max-line-length": "0"}), ("1", {"max-line-length": "1"}),
                            ("5", {"max-line-length": "5"})]),
    Dim("line-buffer-size", [("32", {}), ("0", {"line-buffer-size": "0"})]),
    Dim("wrap-max-lines", [("2", {}), ("0", {"wrap-max-lines": "0"}), ("1", {"wrap-max-lines": "1"}),
                           ("unlimited", {"wrap-max-lines": "unlimited"})]),
    Dim("max-syntax-len", [("400", {}), ("0", {"max-syntax-highlighting-length": "0"}),
                           ("1", {"max-syntax-highlighting-length": "1"})]),
    Dim("tabs", [("8", {}), ("0", {"tabs": "0"}), ("1", {"tabs": "1"})]),
    Dim("hyperlinks", [("off", {}), ("on", {"hyperlinks": True})]),
    Dim("navigate", [("off", {}), ("on", {"navigate": True})]),
    Dim("relative-paths", [("off", {}), ("on", {"relative-paths": True})]),
    Dim("markers", [("off", {}), ("on", {"keep-plus-minus-markers": True})]),
    Dim("syntax", [("none", {}), ("on", {"syntax-theme": "Monokai Extended"})]),
    Dim("hunk-header", [("default", {}), ("file", {"hunk-header-style": "file line-number syntax"}),
                        ("raw", {"hunk-header-style": "raw"}), ("omit", {"hunk-header-style": "omit"})]),
    Dim("grep-type", [("ripgrep", {}), ("classic", {"grep-output-type": "classic"})]),
    Dim("zero-bg", [("none", {}), ("bg", {"zero-style": "syntax 22", "line-fill-method": "spaces"})]),
    Dim("distance", [("0.6", {}), ("0", {"max-line-distance": "0"}), ("1", {"max-line-distance": "1"})]),
]

BASE = {"no-gitconfig": True, "paging": "never", "detect-dark-light": "never", "dark": True,
        "syntax-theme": "none", "width": "80"}


class Hostile(Problem):
    def __init__(self, depth, alphabet, width, shard=(0, 1)):
        self.depth = depth
        self.max_depth = depth
        self.alphabet = alphabet
        self.width = width
        # the first line is taken from this worker's share of the alphabet (the search is
        # sharded over workers by first line; each shard deduplicates on its own)
        self.first = alphabet[shard[0]::shard[1]]

    def initial(self):
        return (0, ())

    def successors(self, ps):
        if ps >= self.depth:
            return []
        return [(l, ps + 1, "hostile") for l in (self.first if ps == 0 else self.alphabet)]

    def step(self, model, line, kind, out, ps):
        return ()

    def model_key(self, model):
        return ()

    def whole(self, hist, res, ps):
        n_in = sum(len(l) + 1 for l in hist)
        # every input column may become a row of its own when wrapping is unlimited (a row costs
        # at most the width plus escape sequences); anything beyond that is runaway output
        bound = 2 * (n_in + 64) * (self.width + 256) + 65536
        if len(res.out) > bound:
            raise ViolationError("runaway-output", "output of %d bytes for %d input bytes"
                                 % (len(res.out), n_in), observed=len(res.out))


def run_hostile(task):
    label, ov, caller, pty, depth, dedup, deadline = task[:7]
    shard = task[7] if len(task) > 7 else (0, 1)
    opts = dict(BASE)
    opts.update(ov)
    args = build_args(opts)
    drv = explore.get_driver(caller=caller, pty=pty)
    drv.timeout = 30.0
    try:
        cid = drv.mkconfig(args)
    except explore.Rejected as e:
        if "PANIC" in str(e):
            v = Violation("crash:config-panic", "panic while processing accepted-looking options: %s" % e,
                          [], 0)
            v.args = args
            v.config_label = label
            return {"label": label, "spec": ("hostile", depth), "states": 1, "transitions": 1,
                    "renders": 0, "max_depth": 0, "snapshots": set(), "step_outputs": set(),
                    "kinds": {}, "cap_hit": None, "samples": [], "violations": [v], "args": args,
                    "caller": caller}
        return {"label": label, "spec": ("hostile", depth), "rejected": str(e)}
    try:
        w = int(opts.get("width") or "80")
    except ValueError:
        w = 80
    prob = Hostile(depth, HOSTILE, w, shard)
    stats, viols = explore.bfs(prob, drv, cid, deadline=deadline, dedup=dedup, batch=128,
                               max_violations=40)
    drv.drop(cid)
    for v in viols:
        v.args = args
        v.config_label = label
        v.caller = caller
        v.pty = pty
    d = stats.merge_dict()
    d.update(label=label, spec=("hostile", depth), violations=viols, args=args, caller=caller)
    return d


def byte_strings(L):
    for n in range(1, L + 1):
        for combo in itertools.product(BYTE_CLASSES, repeat=n):
            yield b"".join(combo)


def run_bytes(task):
    """All byte strings of length <= L whose first class index is in `firsts`, injected as one
    line (also with a marker prefix) in each of the machine states."""
    label, ov, state, firsts, L, deadline = task
    opts = dict(BASE)
    opts.update(ov)
    args = build_args(opts)
    caller = STATE_CALLER.get(state)
    drv = explore.get_driver(caller=caller)
    cid = drv.mkconfig(args)
    prefix = b"".join(l + b"\n" for l in STATE_PREFIXES[state])
    mark = {"hunk": b"+", "combined": b"++"}.get(state, b"")
    n = 0
    outs = set()
    viols = {}
    batch = []
    capped = None

    def flush():
        nonlocal n
        if not batch:
            return
        inputs = [prefix + mark + s + b"\n" for s in batch]
        try:
            results = drv.render(cid, inputs)
        except (Hang, DriverDied):
            results = []
            for inp in inputs:
                try:
                    results.append(drv.render(cid, [inp])[0])
                except (Hang, DriverDied) as e2:
                    results.append(e2)
        for s, r in zip(batch, results):
            n += 1
            if isinstance(r, Exception) or r.panic or r.ioerr:
                what = ("hang" if isinstance(r, Hang) else "died" if isinstance(r, DriverDied)
                        else "panic" if r.panic else "ioerr")
                msg = str(r) if isinstance(r, Exception) else (r.panic or r.ioerr)
                klass = "crash:%s:%s" % (what, explore.crash_site(msg))
                if klass not in viols or len(s) < len(viols[klass].history[-1]):
                    v = Violation(klass, "%s: %s" % (what, msg),
                                  STATE_PREFIXES[state] + [mark + s], None, None, msg)
                    v.args = args
                    v.config_label = label + "/state=" + state
                    v.caller = caller
                    viols[klass] = v
            else:
                outs.add(explore.h64(r.out[-64:]))
        del batch[:]

    for f in firsts:
        for rest_len in range(0, L):
            for combo in itertools.product(BYTE_CLASSES, repeat=rest_len):
                batch.append(BYTE_CLASSES[f] + b"".join(combo))
                if len(batch) >= 512:
                    if time.time() > deadline:
                        capped = "wall cap in byte layer"
                        break
                    flush()
            if capped:
                break
        if capped:
            break
    flush()
    drv.drop(cid)
    return {"n": n, "outs": outs, "violations": list(viols.values()), "capped": capped,
            "label": label, "state": state, "args": args, "caller": caller}


def run_deco(task):
    """E2: every width 1..W x every decoration combination on the three header kinds, over inputs whose
    header texts have several lengths (width == text width +-1 are the interesting points)"""
    widths, deadline = task
    drv = explore.get_driver()
    viols = {}
    n = 0
    inputs = []
    for name in ("a", "a.txt", "dir/file.rs", "\xe6\xbc\xa2\xe6\xbc\xa2.rs", "a-much-longer/path/to/some/file-name.txt"):
        nm = name.encode("latin-1") if "\\x" not in name else name.encode("latin-1")
        inputs.append(b"commit 1234567\ndiff --git a/" + nm + b" b/" + nm + b"\n--- a/" + nm + b"\n+++ b/" + nm +
                      b"\n@@ -1,2 +1,2 @@ fn f()\n a\n-b\n+c\n")
    inputs.append(b"commit 0123456789abcdef0123456789abcdef01234567 (HEAD -> main)\n")
    inputs.append(b"diff --git a/x b/y\nsimilarity index 100%\nrename from x\nrename to y\ndiff --git a/m b/m\nold mode 100644\nnew mode 100755\n")
    decos = ["box", "ul", "ol", "box ul", "box ol", "ul ol", "box ul ol", "none"]
    for w in widths:
        for deco in decos:
            for ln in (False, True):
                o = dict(BASE)
                o.update({"width": str(w), "file-decoration-style": "blue " + deco if deco != "none" else "none",
                          "commit-decoration-style": "yellow " + deco if deco != "none" else "none",
                          "hunk-header-decoration-style": "blue " + deco if deco != "none" else "none",
                          "hunk-header-style": "file line-number syntax"})
                if ln:
                    o["line-numbers"] = True
                args = build_args(o)
                try:
                    cid = drv.mkconfig(args)
                except explore.Rejected:
                    continue
                res = explore.render_robust(drv, cid, inputs, timeout=10.0)
                drv.drop(cid)
                for inp, r in zip(inputs, res):
                    n += 1
                    if isinstance(r, Exception) or r.panic:
                        msg = str(r) if isinstance(r, Exception) else r.panic
                        klass = "crash:%s:%s" % ("hang" if isinstance(r, Hang) else "panic", explore.crash_site(msg))
                        if klass not in viols:
                            v = Violation(klass, msg, inp.split(b"\n")[:-1], None, None, msg)
                            v.args = args
                            v.config_label = "decorations,width=%d,%s" % (w, deco)
                            viols[klass] = v
    return {"n": n, "violations": list(viols.values())}


# ---------------------------------------------------------------------------------------------
# Layer 3 (E2, option values): every listed option x every hostile value of its kind x presentation
# modes, rendered over a corpus that reaches every element the option can influence. "Accepted" = the
# option set did not make delta exit with a usage/error message (status 2 with an ordinary message).

FMT_VALUES = ["", " ", "{", "}", "{}", "{nm", "nm}", "{nm:}", "{nm:^0}", "{nm:^1}", "{nm:>99999999999999999999}",
              "{nm:_<3}", "{nm:<3.2}", "{xx}", "{nm:^4}{np:^4}{nm}", "\u6f22{nm:^3}\u6f22", "%", "%Y-%m-%d %z", "%Q%%%",
              "{timestamp:<15} {author:<15.14} {commit:<8}", "{commit}", "{author:>0}", "{timestamp:^1}",
              "{n:^4}", "{n}", "{path}", "{host}{path}{line}", "file://{path}#{line}", "{commit:>400}",
              "{nm:^400}", "{np:\u6f22^5}", "{nm:~>3}", "{{nm}}", "{nm:^-1}", "\x1b[31m{nm}",
              "{nm:^70000}", "{author:<70000}", "{n:^70000}", "{commit:<3.70000}"]
SYM_VALUES = ["", " ", "ab", "\u6f22", "\t", "\x1b[31m", "e\u0301", "\u200b", "\n", "x" * 100, "\u6f22" * 50]
RE_VALUES = ["", "(", ".*", "^", "$", "\\b", "x*", "(?:)", "a|", "[", "\\w+", ".", "\\s*", "(a)(b)", "^$", "\u6f22?"]
FT_VALUES = ["", "s", "s/a/b/", "s/(/x/", "s/a/$9/", "s/.*//", "s///", "s/a/b/g;s/b/a/", "s,a,b,", "s/a/b",
             "s/x/\u6f22\u6f22/", "s/^/" + "p" * 300 + "/", "s/(.)/$1$1$1$1/g", "y/a/b/",
             "s\u00e9a\u00e9b\u00e9", "\u00e9/a/b/", "\u6f22"]
NUM_VALUES = {
    "width": ["0", "1", "2", "3", "4", "5", "variable", "-1", "99999", "18446744073709551615", "18446744073709551616", ""],
    "tabs": ["0", "1", "2", "1000", "18446744073709551615", "-1"],
    "max-line-length": ["0", "1", "2", "5", "18446744073709551615"],
    "line-buffer-size": ["0", "1", "2", "18446744073709551615"],
    "wrap-max-lines": ["0", "1", "2", "unlimited", "\u221e", "18446744073709551615", "-1"],
    "wrap-right-percent": ["0", "100", "-1", "1e9", "nan", "inf", "0.0001", "99.9999", "101", ""],
    "max-line-distance": ["0", "1", "-1", "2", "nan", "inf", "-inf", "1e-300", "0.9999999"],
    "diff-stat-align-width": ["0", "1", "2", "1000", "18446744073709551615"],
    "max-syntax-highlighting-length": ["0", "1", "2", "18446744073709551615"],
}
ENUM_VALUES = {
    "line-fill-method": ["ansi", "spaces", "", "x"],
    "inspect-raw-lines": ["true", "false", "", "x"],
    "true-color": ["always", "never", "auto", ""],
    "24-bit-color": ["always", "never", "auto"],
    "grep-output-type": ["ripgrep", "classic", ""],
    "default-language": ["", "rs", "nosuch", "\u6f22", "Rust", "txt", "."],
    "syntax-theme": ["none", "", "nosuch", "Monokai Extended", "GitHub", "ansi", "base16"],
    "map-styles": ["", "=>", "a=>b", "bold purple => syntax magenta, x", ",,", "red=>", "=>red", "bold red => omit",
                   "31 => raw", "red => red, red => blue"],
    "blame-palette": ["", " ", "red", "#", "#000000", "red red", "1 2 3 4 5 6 7 8 9 10 11 12 13 14 15 16 17"],
    "features": ["", " ", "nosuch", "navigate navigate", "side-by-side line-numbers decorations", "raw color-only",
                 "diff-so-fancy diff-highlight"],
}
STYLE_VALUES = ["", " ", "omit", "raw", "syntax", "normal", "normal normal normal", "red red", "bold bold", "#fff",
                "#ffffff", "#gggggg", "256", "255", "-1", "auto", "ul ol box", "reverse syntax", "\"", "none",
                "syntax syntax", "raw bold", "omit box", "red blue green", "bold italic ul ol blink hidden strike dim reverse 1 2",
                "box", "ul", "ol", "box ul ol red", "underline", "overline", "purple bright-purple", "'red'", "red,blue",
                "raw box", "file line-number", "omit-code-fragment", "line-number", "file", "syntax file line-number"]
FMT_OPTS = ["line-numbers-left-format", "line-numbers-right-format", "blame-format", "blame-separator-format",
            "blame-timestamp-format", "blame-timestamp-output-format", "hyperlinks-file-link-format",
            "hyperlinks-commit-link-format"]
SYM_OPTS = ["wrap-left-symbol", "wrap-right-symbol", "wrap-right-prefix-symbol", "right-arrow", "hunk-label",
            "grep-separator-symbol", "merge-conflict-begin-symbol", "merge-conflict-end-symbol",
            "file-added-label", "file-copied-label", "file-modified-label", "file-removed-label",
            "file-renamed-label"]
RE_OPTS = ["commit-regex", "navigate-regex", "word-diff-regex"]
STYLE_OPTS_ALL = [
    "minus-style", "plus-style", "zero-style", "minus-emph-style", "plus-emph-style", "minus-non-emph-style",
    "plus-non-emph-style", "minus-empty-line-marker-style", "plus-empty-line-marker-style",
    "whitespace-error-style", "commit-style", "commit-decoration-style", "file-style", "file-decoration-style",
    "hunk-header-style", "hunk-header-decoration-style", "hunk-header-file-style", "hunk-header-line-number-style",
    "line-numbers-minus-style", "line-numbers-plus-style", "line-numbers-zero-style", "line-numbers-left-style",
    "line-numbers-right-style", "inline-hint-style", "blame-code-style", "blame-separator-style",
    "grep-context-line-style", "grep-file-style", "grep-header-decoration-style", "grep-header-file-style",
    "grep-line-number-style", "grep-match-line-style", "grep-match-word-style",
    "merge-conflict-ours-diff-header-style", "merge-conflict-ours-diff-header-decoration-style",
    "merge-conflict-theirs-diff-header-style", "merge-conflict-theirs-diff-header-decoration-style"]

RG1 = b'{"type":"match","data":{"path":{"text":"src/f.rs"},"lines":{"text":"\\tlet a = \xe6\xbc\xa2;\\n"},"line_number":3,"absolute_offset":0,"submatches":[{"match":{"text":"a"},"start":5,"end":6}]}}'
OPT_CORPUS = [
    ("diff", None,
     b"commit " + H40 + b" (HEAD -> main)\nAuthor: A <a@b>\nDate:   Thu Jan 1 00:00:00 2020 +0000\n\n    subject\n\n"
     b" src/f.rs | 2 +-\n 1 file changed, 1 insertion(+), 1 deletion(-)\n\n"
     b"diff --git a/src/f.rs b/src/f.rs\nindex 1111111..2222222 100644\n--- a/src/f.rs\n+++ b/src/f.rs\n"
     b"@@ -9,5 +9,6 @@ fn main() {\n     let a = 1;\n-    let b = \"" + b"x" * 70 + b"\";\n+    let b = \"" + b"x" * 30 + b"\xe6\xbc\xa2" * 25 +
     b"\";\n+\n \tprintln!(\"{}\", a);\n-\n+\tc  \n }\n\\ No newline at end of file\n"
     b"diff --git a/old name.txt b/new name.txt\nsimilarity index 90%\nrename from old name.txt\nrename to new name.txt\n"
     b"index 1111111..2222222 100644\n--- a/old name.txt\n+++ b/new name.txt\n@@ -1 +1 @@\n-a\n+b\n"
     b"diff --git a/m.sh b/m.sh\nold mode 100644\nnew mode 100755\n"
     b"diff --git a/n.bin b/n.bin\nnew file mode 100644\nindex 0000000..2222222\nBinary files /dev/null and b/n.bin differ\n"
     b"diff --git a/c.txt b/d.txt\nsimilarity index 100%\ncopy from c.txt\ncopy to d.txt\n"
     b"diff --git a/gone.rs b/gone.rs\ndeleted file mode 100644\nindex 1111111..0000000\n--- a/gone.rs\n+++ /dev/null\n@@ -1,2 +0,0 @@\n-fn x() {}\n-\n"
     b"Submodule sub 1111111..2222222:\n  > msg\n"),
    ("coloured", None,
     b"\x1b[1mdiff --git a/f.py b/f.py\x1b[m\n\x1b[1m--- a/f.py\x1b[m\n\x1b[1m+++ b/f.py\x1b[m\n\x1b[36m@@ -1,3 +1,3 @@\x1b[m \x1b[mdef f():\x1b[m\n"
     b" x\x1b[m\n\x1b[31m-old line here\x1b[m\n\x1b[32m+\x1b[m\x1b[32mnew line here\x1b[m\x1b[41m  \x1b[m\n\x1b[1;35m-moved away\x1b[m\n\x1b[1;36m+\x1b[m\x1b[1;36mmoved here\x1b[m\n"),
    ("combined", None,
     b"diff --cc f.txt\nindex 1111111,2222222..0000000\n--- a/f.txt\n+++ b/f.txt\n@@@ -1,5 -1,5 +1,9 @@@ ctx\n  a\n- b\n -c\n++d\n"
     b"++<<<<<<< HEAD\n +ours \xe6\xbc\xa2\n++||||||| base\n++anc\n++=======\n+ theirs\n++>>>>>>> branch\n  e\n++<<<<<<< HEAD\n +unclosed\n"),
    ("diffu", None,
     b"diff -ru a/x.c b/x.c\n--- a/x.c\t2020-01-01 00:00:00.000000000 +0000\n+++ b/x.c\t2020-01-02 00:00:00.000000000 +0000\n"
     b"@@ -1,3 +1,3 @@\n a\n--- b\n+++ c\n d\nOnly in a: y\n"),
    ("grep", ["git", "grep", "-n", "a"],
     b"src/f.rs:3:\tlet a = 1;\nsrc/f.rs-4-\tother\n--\nsrc/f.rs:19:  a\xe6\xbc\xa2\nsrc/g-1.rs=7=fn q() {\nsrc/g-1.rs:8:    a\nREADME:1:a\n"
     b"\x1b[35msrc/h.rs\x1b[m\x1b[36m:\x1b[m\x1b[32m5\x1b[m\x1b[36m:\x1b[mxx \x1b[1;31ma\x1b[m yy\n"),
    ("rgjson", ["rg", "--json", "a"],
     b'{"type":"begin","data":{"path":{"text":"src/f.rs"}}}\n' + RG1 + b"\n" +
     b'{"type":"context","data":{"path":{"text":"src/f.rs"},"lines":{"text":"next\\n"},"line_number":4,"absolute_offset":9,"submatches":[]}}\n'
     b'{"type":"end","data":{"path":{"text":"src/f.rs"}}}\n'),
    ("blame", ["git", "blame", "f.rs"],
     H40[:8] + b" (A U Thor       2020-01-01 00:00:00 +0000  1) fn main() {\n" +
     H40[:8] + b" (A U Thor       2020-01-01 00:00:00 +0000  2)     \tlet a = 1;\n"
     b"^1234567 old.rs (\xe6\xbc\xa2\xe6\xbc\xa2 2019-06-01 12:00:00 -0730  3) }\n" +
     H40[8:16] + b" (B               2021-12-31 23:59:59 +1400 10) \n"),
    ("show", ["git", "show", "HEAD:f.rs"], b"fn main() {\n\tlet a = \"\xe6\xbc\xa2\";\n}\n"),
]
OPT_MODES = [("unified", {}), ("sbs", {"side-by-side": True}), ("ln", {"line-numbers": True}),
             ("sbs,w=30", {"side-by-side": True, "width": "30"}),
             ("navigate,hyperlinks", {"navigate": True, "hyperlinks": True}),
             ("color-only", {"color-only": True}),
             ("syntax", {"syntax-theme": "Monokai Extended"}),
             ("w=12,ln", {"width": "12", "line-numbers": True})]


def option_values(tier):
    """[(option, value)] - the single-option deviations of layer 3"""
    def dec(v):
        return v
    out = []
    for o in FMT_OPTS:
        out += [(o, dec(v)) for v in FMT_VALUES]
    for o in SYM_OPTS:
        out += [(o, dec(v)) for v in SYM_VALUES]
    for o in RE_OPTS:
        out += [(o, dec(v)) for v in RE_VALUES]
    out += [("file-transformation", dec(v)) for v in FT_VALUES]
    for o, vs in list(NUM_VALUES.items()) + list(ENUM_VALUES.items()):
        out += [(o, dec(v)) for v in vs]
    for i, o in enumerate(STYLE_OPTS_ALL):
        # quick: every style option gets half of the values (alternating halves, so every value meets both kinds of
        # option); C12 covers the style grammar itself
        out += [(o, dec(v)) for v in (STYLE_VALUES if tier == "thorough" else STYLE_VALUES[i % 2::2])]
    return out


_SINGLE = {}


def single_crashes(drv, mov, pair, inp):
    """{(kind, site)} of the crashes each value of the pair produces on its own (same mode, same input)"""
    out = set()
    for opt, val in pair:
        key = (tuple(sorted(mov.items())), opt, val, inp)
        if key not in _SINGLE:
            o = dict(BASE)
            o.update(mov)
            o[opt] = val
            got = set()
            try:
                cid = drv.mkconfig(build_args(o))
                if inp is not None:
                    r = explore.render_robust(drv, cid, [inp], timeout=20.0)[0]
                    if isinstance(r, Exception) or r.panic:
                        msg = str(r) if isinstance(r, Exception) else r.panic
                        kind = "hang" if isinstance(r, Hang) else ("died" if isinstance(r, DriverDied) else "panic")
                        got.add((kind, explore.crash_site(msg)))
                drv.drop(cid)
            except explore.Rejected as e:
                if "PANIC" in str(e) or "report the bug" in str(e):
                    got.add(("config", explore.crash_site(str(e))))
            except (Hang, DriverDied):
                got.add(("config", "died"))
            _SINGLE[key] = got
        out |= _SINGLE[key]
    return out


def run_optvals(task):
    """one caller's share: [(option, value)] x modes, rendered over that caller's corpus"""
    caller, inputs, names, pairs, modes, deadline = task
    drv = explore.get_driver(caller=caller)
    drv.timeout = 30.0
    viols = {}
    n = 0
    nconf = 0
    rejected = 0
    capped = False
    outs = set()

    def note(klass, msg, hist, args, label):
        if klass not in viols:
            v = Violation(klass, msg, hist, None, None, msg)
            v.args = args
            v.config_label = label
            v.caller = caller
            viols[klass] = v

    for pair in pairs:
        if time.time() > deadline:
            capped = True
            break
        for mlabel, mov in modes:
            o = dict(BASE)
            o.update(mov)
            label = mlabel
            for opt, val in pair:
                if opt == "features":
                    o["features"] = val
                else:
                    o[opt] = val
                label += ",%s=%r" % (opt, val)
            args = build_args(o)
            try:
                cid = drv.mkconfig(args)
            except explore.Rejected as e:
                msg = str(e)
                if "PANIC" in msg or "report the bug" in msg:
                    if len(pair) > 1 and ("config", explore.crash_site(msg)) in single_crashes(drv, mov, pair, None):
                        continue
                    note("crash:config:" + explore.crash_site(msg) + ":" + "+".join(o for o, _ in pair), msg, [], args, label)
                else:
                    rejected += 1
                continue
            except (Hang, DriverDied) as e:
                note("crash:config:%s:%s" % (type(e).__name__, pair[0][0]), str(e), [], args, label)
                continue
            nconf += 1
            w = 80
            try:
                w = int(o.get("width") or "80")
            except ValueError:
                pass
            res = explore.render_robust(drv, cid, inputs, timeout=20.0)
            drv.drop(cid)
            late_reject = False
            for name, inp, r in zip(names, inputs, res):
                n += 1
                if isinstance(r, DriverDied) and r.status == 2 and b"report the bug" not in (r.stderr or b""):
                    # delta validates some option values only when they are first used and then exits with an
                    # ordinary error message (status 2): a late rejection, the option set is not accepted
                    late_reject = True
                    continue
                if isinstance(r, Exception) or r.panic:
                    msg = str(r) if isinstance(r, Exception) else r.panic
                    kind = "hang" if isinstance(r, Hang) else ("died" if isinstance(r, DriverDied) else "panic")
                    if len(pair) > 1 and (kind, explore.crash_site(msg)) in single_crashes(drv, mov, pair, inp):
                        continue    # one of the two values alone does it: reported by the single-value pass
                    note("crash:%s:%s:%s" % (kind, explore.crash_site(msg), "+".join(o for o, _ in pair)), msg,
                         inp.split(b"\n")[:-1], args, label + "/" + name)
                else:
                    outs.add(explore.h64(r.out))
                    bound = 2 * (len(inp) + 64) * (min(w, 100000) + 256) + 65536
                    if "tabs" in o:
                        bound += len(inp) * min(int(o["tabs"]) if o["tabs"].isdigit() else 8, 10**7)
                    # padding the user asked for in a format string is not runaway output
                    asked = sum(min(int(m), 65535) for opt, val in pair if opt in FMT_OPTS
                                for m in re.findall(r"\{[a-z]*:[^}0-9]*([0-9]+)", val))
                    bound += 2 * (inp.count(b"\n") + 1) * asked
                    if len(r.out) > bound:
                        note("runaway-output:" + pair[0][0], "output of %d bytes for %d input bytes" % (len(r.out), len(inp)),
                             inp.split(b"\n")[:-1], args, label + "/" + name)
            if late_reject:
                rejected += 1
                nconf -= 1
    return {"n": n, "configs": nconf, "rejected": rejected, "violations": list(viols.values()),
            "capped": capped, "outs": outs}


def plan_optvals(tier, deadline):
    vals = option_values(tier)
    if tier == "quick":
        modes = OPT_MODES[:3]
        pairs = [(v,) for v in vals]
        # a few number x number pairs (panel geometry x wrapping limits)
        pairs += [(("width", w), ("wrap-max-lines", m)) for w in ("1", "5", "12", "30")
                  for m in ("0", "1", "unlimited", "18446744073709551615")]
        pairs += [(("width", w), ("max-line-length", m)) for w in ("1", "5", "30") for m in ("0", "1", "5")]
    else:
        modes = OPT_MODES
        pairs = [(v,) for v in vals]
        # pairs of deviations from different kinds (a format or symbol with a number)
        nums = [(o, v) for o, vs in NUM_VALUES.items() for v in vs if o in ("width", "tabs", "max-line-length", "wrap-max-lines")]
        others = [v for v in vals if v[0] in FMT_OPTS + SYM_OPTS]
        pairs += [(a, b) for a in others for b in nums]
        allnums = [(o, v) for o, vs in NUM_VALUES.items() for v in vs]
        pairs += [(a, b) for i, a in enumerate(allnums) for b in allnums[i + 1:] if a[0] != b[0]]
    tasks = []
    by_caller = {}
    for name, caller, data in OPT_CORPUS:
        by_caller.setdefault(tuple(caller) if caller else None, []).append((name, data))
    nshards = 16
    for caller, items in by_caller.items():
        names = [n for n, _ in items]
        inputs = [d for _, d in items]
        for i in range(nshards):
            tasks.append((list(caller) if caller else None, inputs, names, pairs[i::nshards], modes, deadline))
    return tasks, len(vals), len(pairs), len(modes)


def run_wrap(task):
    """E2: side-by-side wrapping at exact-fit points: every width x every text length 1..3 panels x trailing
    blanks/tab x line kind (the two wrapping passes - syntax and diff sections - must agree on every one)"""
    widths, wrap_max, deadline = task
    drv = explore.get_driver()
    viols = {}
    n = 0
    head = b"diff --git a/f.txt b/f.txt\n--- a/f.txt\n+++ b/f.txt\n@@ -1,2 +1,2 @@\n"
    for w in widths:
        for ln in (False, True, "wide-symbols"):
            o = dict(BASE)
            o.update({"width": str(w), "side-by-side": True, "wrap-max-lines": wrap_max,
                      "syntax-theme": "Monokai Extended"})
            if ln is True:
                o["line-numbers-left-format"] = ""
                o["line-numbers-right-format"] = "|"
            if ln == "wide-symbols":
                # a wrap symbol counts as one column for delta's option check when it is one cluster: a double-width one
                # leaves less room than the wrapping code assumes
                o["wrap-left-symbol"] = "\u6f22"
                o["wrap-right-symbol"] = "\u6f22"
                o["wrap-right-prefix-symbol"] = "\u6f22"
            args = build_args(o)
            try:
                cid = drv.mkconfig(args)
            except explore.Rejected:
                continue
            inputs = []
            for k in range(1, 3 * (w // 2) + 3):
                for trail in (b"", b" ", b"  ", b"\t", b" \xe6\xbc\xa2"):
                    t = b"x" * k + trail
                    inputs.append(head + b"-" + t + b"\n+" + t + b"y\n")
                    inputs.append(head + b" " + t + b"\n+q\n")
                    inputs.append(head + b"-q\n+" + b"x" * (k // 2) + b" " + b"x" * (k - k // 2) + trail + b"\n")
            # clusters and zero-width characters at row ends: emoji + variation selector, zero-width space, right-to-left
            # mark, a combining mark after punctuation - in paired lines (the two section lists are cut differently) and
            # in unchanged lines of a highlighted file (the syntax sections are cut at token borders)
            for a, b in ((b"\xe2\xac\x86\xef\xb8\x8f", b"\xe2\xac\x87\xef\xb8\x8f"), (b"x\xe2\x80\x8b", b"y\xe2\x80\x8b"),
                         (b"{\xcc\x81", b"}\xcc\x81"), (b"\xe2\x80\x8f\xd7\xa9", b"\xe2\x80\x8f\xd7\x9c"),
                         # zero-width-joiner sequences (man / woman technologist), check mark / cross with selector
                         (b"\xf0\x9f\x91\xa8\xe2\x80\x8d\xf0\x9f\x92\xbb", b"\xf0\x9f\x91\xa9\xe2\x80\x8d\xf0\x9f\x92\xbb"),
                         (b"\xe2\x9c\x94\xef\xb8\x8f", b"\xe2\x9c\x96\xef\xb8\x8f"),
                         # soft hyphen
                         (b"co\xc2\xadop", b"re\xc2\xadop")):
                for k in range(0, w // 2 + 2):
                    pad = b"w" * k
                    inputs.append(head + b"-" + pad + a + b" tail of the line\n+" + pad + b + b" tail of the line\n")
                    inputs.append(head + b" " + pad + b' "' + a + b'tail of the line",\n-q\n')
                    inputs.append(head.replace(b"f.txt", b"f.json") + b' {\n   "' + pad + b'": "' + a + b' and more words here",\n-  "c": 1\n+  "c": 2\n')
                # the same clusters at the very start of a line
                inputs.append(head + b"-" + a + b"a" * (w + 3) + b"\n+" + b + b"b" * (w + 7) + b"\n")
                inputs.append(head + b" " + a + b"a" * (w + 3) + b"\n+q\n")
            for i in range(0, len(inputs), 256):
                if time.time() > deadline:
                    break
                chunk = inputs[i:i + 256]
                res = explore.render_robust(drv, cid, chunk, timeout=20.0)
                for inp, r in zip(chunk, res):
                    n += 1
                    if isinstance(r, Exception) or r.panic:
                        msg = str(r) if isinstance(r, Exception) else r.panic
                        klass = "crash:%s:%s" % ("hang" if isinstance(r, Hang) else "panic", explore.crash_site(msg))
                        if any(z in inp for z in (b"\xef\xb8\x8f", b"\xe2\x80\x8b", b"\xe2\x80\x8f", b"\xcc\x81", b"\xe2\x80\x8d", b"\xc2\xad")):
                            klass += ":cluster-or-zero-width"     # (a class of its own: see known_findings.json)
                        if klass not in viols:
                            v = Violation(klass, msg, inp.split(b"\n")[:-1], None, None, msg)
                            v.args = args
                            v.config_label = "wrap-sweep,width=%d,wrap-max-lines=%s" % (w, wrap_max)
                            viols[klass] = v
            drv.drop(cid)
    return {"n": n, "violations": list(viols.values())}


PAGER_VALUES = ["", " ", "'", "\"", "less 'x", "\\", "nosuchpager-verif", "cat", "cat --", "cat 'a b'", "\u6f22",
                "$(", "| cat", "cat\t", "a=b cat"]
PAGER_SOURCES = ["--pager", "DELTA_PAGER", "BAT_PAGER", "PAGER"]


def run_pager_values(task):
    """the real binary with paging on: every listed pager value from every source. Whatever the value, delta may not
    panic or die by a signal; when it accepts the value (status 0) the whole output must have been written."""
    values, = task
    data = b"diff --git a/f b/f\n--- a/f\n+++ b/f\n@@ -1 +1 @@\n-a\n+b\n"
    viols = []
    n = 0
    for src in PAGER_SOURCES:
        for val in values:
            args = ["--no-gitconfig", "--paging=always", "--width=80"]
            env = {"PATH": os.environ.get("PATH", "/usr/bin:/bin")}
            if src == "--pager":
                args.append("--pager=" + val)
            else:
                env[src] = val
            runs = [(args, data)]
            if src != "--pager":
                # (the subcommands that start a pager of their own look at the environment only)
                runs += [(["--no-gitconfig", sub], b"") for sub in ("--help", "--show-colors", "--show-syntax-themes",
                                                                    "--list-languages")]
            status, err = 0, b""
            for a_, d_ in runs:
                try:
                    status, out, err = run_cli(a_, d_, env=env, timeout=20.0)
                except Exception as e:
                    status, out, err = -9, b"", ("%s: %s" % (type(e).__name__, e)).encode()
                n += 1
                if status == 101 or status < 0 or b"panicked" in err or b"report the bug" in err:
                    args = a_
                    break
            if status == 101 or status < 0 or b"panicked" in err or b"report the bug" in err:
                site = explore.crash_site(err.decode("utf-8", "replace")) if b"panicked" in err else "status%d" % status
                v = Violation("crash:pager-value:%s:%s" % (site, src),
                              "pager value %r from %s: status %d: %s" % (val, src, status, err[-300:].decode("utf-8", "replace")),
                              data.split(b"\n")[:-1])
                v.args = args
                v.env = {src: val} if src != "--pager" else None
                v.config_label = "%s=%r" % (src, val)
                viols.append(v)
    return {"n": n, "violations": viols}


def plan(tier):
    d1 = deviations(DIMS, 1)
    hostile = []
    D = 3 if tier == "quick" else 4
    for label, ov, k in d1:
        hostile.append((label, ov, None, None, D if tier == "thorough" else (3 if k == 0 else 2), True))
    # quick: depth 3 for the default vector and the four views; depth 2 for other deviations
    if tier == "quick":
        for label, ov in [("view=sbs", {"side-by-side": True}), ("view=ln", {"line-numbers": True}),
                          ("sbs,width=16,wrap=unlimited", {"side-by-side": True, "width": "16",
                                                           "wrap-max-lines": "unlimited"}),
                          ("sbs,width=15,wrap=unlimited", {"side-by-side": True, "width": "15",
                                                           "wrap-max-lines": "unlimited"}),
                          ("syntax=on", {"syntax-theme": "Monokai Extended"}),
                          ("preset=color-only", {"color-only": True})]:
            d3 = 2 if "unlimited" in label else 3
            hostile.append((label + "/d%d" % d3, ov, None, None, d3, True))
    else:
        hostile.append(("default/d5", {}, None, None, 5, True))
        for label, ov, k in deviations(DIMS, 2):
            if k == 2:
                hostile.append((label, ov, None, None, 3, True))
    # callers and pty
    for c in CALLERS[1:]:
        hostile.append(("caller=" + " ".join(c), {}, c, None, 3 if tier == "thorough" else 2, True))
        hostile.append(("caller=" + " ".join(c) + ",sbs", {"side-by-side": True}, c, None, 2, True))
    for label, ov in [("pty", {}), ("pty,sbs", {"side-by-side": True}), ("pty,hyperlinks", {"hyperlinks": True}),
                      ("pty,sbs,ansi", {"side-by-side": True, "line-fill-method": "ansi"})]:
        hostile.append((label, dict(ov, width=None), None, (24, 37), 3 if tier == "thorough" else 2, True))
    byte_tasks = []
    L = 4 if tier == "quick" else 5
    modes = [("default", {}), ("sbs", {"side-by-side": True}), ("color-only", {"color-only": True})]
    if tier == "quick":
        modes = modes[:2]
    for label, ov in modes:
        for state in STATE_PREFIXES:
            for f in range(len(BYTE_CLASSES)):
                byte_tasks.append((label, ov, state, [f], L))
    return hostile, byte_tasks, L


ASSUMPTIONS = [
    "hostile alphabet of %d lines (list in props/c03.py) and 18 byte classes; arbitrary long binary "
    "input and enormous inputs (memory growth with input size) are not covered" % len(HOSTILE),
    "option values are the listed levels; interactions of three or more option deviations are not covered",
    "option-value layer: listed hostile values per option kind (formats, symbols, regexes, numbers, enums, styles), one "
    "option at a time (thorough: also format/symbol x number pairs) x presentation modes over an 8-input corpus; an "
    "option set is 'accepted' unless delta exits with an ordinary error message at start-up",
    "hang = no answer within 30 s for a batch; runaway output = more than 2 x (input bytes + 64) x (width + 256) + 64 KiB",
    "built with overflow checks on and debug assertions off",
]


def main(tier):
    import build
    import report
    t0 = time.time()
    build.ensure_built()
    hostile, byte_tasks, L = plan(tier)
    cap = 50 if tier == "quick" else 1200
    deadline = t0 + cap
    wmax = 64 if tier == "quick" else 130
    lt = {}
    t1 = time.time()
    res_d = explore.pmap(run_deco, [(list(range(i, wmax + 1, 16)), deadline) for i in range(1, 17)])
    lt["decoration_width_sweep"] = round(time.time() - t1, 1)
    t1 = time.time()
    wr = list(range(14, 48)) if tier == "quick" else list(range(8, 100))
    res_w = explore.pmap(run_wrap, [(wr[i::8], wm, deadline) for i in range(8) for wm in ("2", "unlimited")])
    lt["wrap_sweep"] = round(time.time() - t1, 1)
    t1 = time.time()
    res_b = explore.pmap(run_bytes, [t + (deadline,) for t in byte_tasks])
    lt["byte_layer"] = round(time.time() - t1, 1)
    t1 = time.time()
    otasks, n_optvals, n_optpairs, n_optmodes = plan_optvals(tier, deadline)
    res_o = explore.pmap(run_optvals, otasks)
    lt["option_value_layer"] = round(time.time() - t1, 1)
    res_p = explore.pmap(run_pager_values, [(PAGER_VALUES[i::5],) for i in range(5)])
    # --parse-ansi reads standard input too: the whole hostile alphabet in one stream
    pa_viol = []
    try:
        st, out, err = run_cli(["--no-gitconfig", "--parse-ansi"], b"".join(l + b"\n" for l in HOSTILE), timeout=30.0)
    except Exception as e:
        st, out, err = -9, b"", str(e).encode()
    if st != 0:
        v = Violation("crash:parse-ansi:" + (explore.crash_site(err.decode("utf-8", "replace")) if b"panicked" in err else "status%d" % st),
                      "--parse-ansi over the hostile alphabet: status %d: %s" % (st, err[-300:].decode("utf-8", "replace")), [])
        v.args = ["--no-gitconfig", "--parse-ansi"]
        pa_viol.append(v)
    t1 = time.time()
    sharded = []
    for t in hostile:
        if t[4] >= 3:
            sharded.extend(t + (deadline, (i, 8)) for i in range(8))
        else:
            sharded.append(t + (deadline,))
    sharded.sort(key=lambda t: -t[4])
    res_h = explore.pmap(run_hostile, sharded)
    lt["hostile_line_search"] = round(time.time() - t1, 1)
    viols = []
    states = transitions = renders = 0
    snaps = set()
    outs = set()
    caps = []
    rejected = []
    samples = []
    maxd = 0
    for r in res_h:
        if "rejected" in r:
            rejected.append((r["label"], r["rejected"][:80]))
            continue
        states += r["states"]
        transitions += r["transitions"]
        renders += r["renders"]
        snaps |= r["snapshots"]
        outs |= r["step_outputs"]
        maxd = max(maxd, r["max_depth"])
        if r["cap_hit"]:
            caps.append("%s: %s" % (r["label"], r["cap_hit"]))
        if r["samples"] and len(samples) < 4:
            samples.append({"config": r["label"], "history": r["samples"][0]})
        viols.extend(r["violations"])
    ndeco = sum(r["n"] for r in res_d)
    for r in res_d:
        viols.extend(r["violations"])
    nwrap = sum(r["n"] for r in res_w)
    for r in res_w:
        viols.extend(r["violations"])
    npager = sum(r["n"] for r in res_p) + 1
    viols.extend(pa_viol)
    for r in res_p:
        viols.extend(r["violations"])
    nbytes = 0
    bouts = set()
    for r in res_b:
        nbytes += r["n"]
        bouts |= r["outs"]
        if r["capped"]:
            caps.append("bytes %s/%s: %s" % (r["label"], r["state"], r["capped"]))
        viols.extend(r["violations"])
    nopt = sum(r["n"] for r in res_o)
    nopt_conf = sum(r["configs"] for r in res_o)
    nopt_rej = sum(r["rejected"] for r in res_o)
    oouts = set()
    for r in res_o:
        oouts |= r["outs"]
        viols.extend(r["violations"])
    if any(r["capped"] for r in res_o):
        caps.append("option-value layer: time cap")
    if not nopt_conf and not viols:
        raise MachineryError("option-value layer: no configuration was accepted")
    best = {}
    for v in viols:
        cur = best.get(v.klass)
        if cur is None or len(v.history or []) < len(cur.history or []) or \
                (len(v.history or []) == len(cur.history or []) and
                 sum(map(len, v.history or [])) < sum(map(len, cur.history or []))):
            best[v.klass] = v
    viols = sorted(best.values(), key=lambda v: v.klass)
    # CLI replay: every distinct crash + a deterministic subset of fine runs must exit 0
    ncli = 0
    step = max(1, len(res_h) // 25)
    for r in res_h[runner.seed() % step::step]:
        if "rejected" in r or not r.get("samples"):
            continue
        data = b"".join(l.encode("latin-1") + b"\n" for l in r["samples"][0])
        status, out, err = run_cli(r["args"], data, caller=r.get("caller"))
        ncli += 1
        if status != 0:
            v = Violation("cli-exit-%d" % status, "plain CLI run exits %d: %s" % (status, err[:200]),
                          [l.encode("latin-1") for l in r["samples"][0]])
            v.args = r["args"]
            viols.append(v)
    for v in list(viols):
        if v.klass.startswith("crash:") and v.history:
            data = b"".join(l + b"\n" for l in v.history)
            try:
                status, out, err = run_cli(v.args, data, caller=v.caller, env=v.env)
            except Exception as e:
                status, err = -1, str(e).encode()
            ncli += 1
            v.extra["cli_status"] = status
            v.extra["cli_stderr"] = err[-300:].decode("utf-8", "replace")
            if status == 0:
                raise MachineryError("driver reports %s but the CLI exits 0 for the same input: "
                                     "driver does not represent the binary" % v.klass)
    cov = {
        "states": states, "transitions": transitions,
        "traces_validated_against_impl": renders + nbytes + ncli + ndeco + nopt + nwrap + npager,
        "pager_value_runs": npager,
        "wrap_exact_fit_sweep_renders": nwrap, "layer_wall_s": lt,
        "option_value_layer": {"option_values": n_optvals, "deviation_tuples": n_optpairs, "modes": n_optmodes,
                               "corpus_inputs": len(OPT_CORPUS), "configurations_accepted": nopt_conf,
                               "configurations_rejected_by_delta": nopt_rej, "renders": nopt,
                               "distinct_outputs": len(oouts)},
        "samples": samples + [{"byte_layer_example": "ESC [ 0 ; m as one line in 5 states"}],
        "decoration_width_sweep_renders": ndeco, "byte_strings_executed": nbytes, "byte_string_max_len": L, "byte_classes": len(BYTE_CLASSES),
        "hostile_alphabet": len(HOSTILE), "max_depth": maxd, "distinct_snapshots": len(snaps),
        "distinct_step_outputs": len(outs), "distinct_byte_layer_outputs": len(bouts),
        "configurations": len(hostile), "configurations_rejected_by_delta": rejected,
        "cli_replays": ncli, "caps_hit": caps, "exhaustive": not caps,
    }
    return report.finish(PROP, tier, "model_checking", cov, viols, ASSUMPTIONS, t0, runner.seed())
