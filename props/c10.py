"""C10 - file sections render independently of their neighbours; output is deterministic.

Bounded exhaustive enumeration of section sequences (all ordered pairs, thorough: triples, of the
12 section kinds x 5 hunk endings, git and diff -ru sources) under d<=1 / d<=2 configurations,
executed on the real code. Oracle (law, no hand-written expected value):
    out(A ++ B [++ C]) == out(A) ++ out(B) [++ out(C)]      byte for byte
i.e. the state reached after a complete section behaves like the initial state. Determinism: each
case rendered twice in one process, and a subset in fresh processes under K controlled hash seeds.
"""
import itertools
import os
import subprocess
import time

import build
import explore
import producers
import report
import runner
from build import MachineryError
from driver import base_env
from explore import Violation
from lattice import Dim, base_opts, build_args, deviations

PROP = "C10"

DIMS = [
    Dim("view", [("unified", {}), ("sbs", {"side-by-side": True})]),
    Dim("line-numbers", [("off", {}), ("on", {"line-numbers": True})]),
    Dim("syntax", [("none", {}), ("on", {"syntax-theme": "Monokai Extended"})]),
    Dim("navigate", [("off", {}), ("on", {"navigate": True})]),
    Dim("hyperlinks", [("off", {}), ("on", {"hyperlinks": True})]),
    Dim("preset", [("none", {}), ("diff-so-fancy", {"diff-so-fancy": True}),
                   ("diff-highlight", {"diff-highlight": True}), ("color-only", {"color-only": True}),
                   ("raw", {"raw": True})]),
    Dim("markers", [("off", {}), ("on", {"keep-plus-minus-markers": True})]),
    Dim("hunk-header", [("reserved", {}), ("file-ln", {"hunk-header-style": "file line-number 110"}),
                        ("omit", {"hunk-header-style": "omit"})]),
    Dim("file-style", [("reserved", {}), ("omit", {"file-style": "omit"}), ("raw", {"file-style": "raw"}),
                       ("box", {"file-decoration-style": "117 box"})]),
    Dim("line-buffer-size", [("32", {}), ("0", {"line-buffer-size": "0"})]),
    Dim("width", [("40", {}), ("variable", {"width": "variable"})]),
    Dim("relative", [("off", {}), ("on", {"relative-paths": True})]),
    Dim("commit-style", [("reserved", {}), ("raw", {"commit-style": "raw", "commit-decoration-style": "none"})]),
]


def sections_for(src, kinds, bodies):
    out = []
    for kind in kinds:
        has_hunk = producers.section(kind, 0, "ctx", src)[1]["has_hunk"]
        for body in (bodies if has_hunk and kind != "submodule" else ["ctx"]):
            out.append((kind, body))
    return out


def sec_bytes(kind, body, n, src):
    lines, _ = producers.section(kind, n, body, src)
    return b"".join(l + b"\n" for l in lines)


def run_task(task):
    label, ov, src, secs, arity, deadline = task
    same_names = label.endswith("/same-file")
    args = build_args(base_opts(ov))
    drv = explore.get_driver()
    try:
        cid = drv.mkconfig(args)
    except explore.Rejected as e:
        return {"label": label, "rejected": str(e)}
    # single sections (position-specific file names so that A and B never share a name)
    singles = {}
    inputs = []
    keys = []
    for pos in range(arity):
        for kind, body in secs:
            keys.append((pos, kind, body))
            inputs.append(sec_bytes(kind, body, 0 if same_names else pos, src))
    res = drv.render(cid, inputs, trace=True, trace_from=0)
    snaps = set()
    for k, r in zip(keys, res):
        if r.panic:
            raise MachineryError("panic rendering a single section %r: %s" % (k, r.panic))
        singles[k] = r.out
        snaps.add(explore.h64(r.trace[-2][1]))
    viols = {}
    n = 0
    nondet = 0
    sample = None
    combos = list(itertools.product(secs, repeat=arity))
    for i in range(0, len(combos), 128):
        if time.time() > deadline:
            return {"label": label, "capped": True, "n": n, "snaps": snaps, "violations": [],
                    "args": args, "sample": sample, "distinct": 0}
        chunk = combos[i:i + 128]
        ins = [b"".join(sec_bytes(k, b, 0 if same_names else pos, src) for pos, (k, b) in enumerate(c))
               for c in chunk]
        r1 = drv.render(cid, ins)
        r2 = drv.render(cid, ins)
        for c, inp, a, b in zip(chunk, ins, r1, r2):
            n += 1
            if a.panic:
                raise MachineryError("panic in C10 render: %s" % a.panic)
            if sample is None:
                sample = {"sections": [list(x) for x in c], "config": label}
            expect = b"".join(singles[(pos, k, bd)] for pos, (k, bd) in enumerate(c))
            if a.out != b.out:
                klass = "nondeterministic"
                if klass not in viols:
                    v = Violation(klass, "two renders of the same input in one process differ",
                                  inp.split(b"\n"), None, a.out, b.out)
                    viols[klass] = v
            if a.out != expect:
                # class: which kinds, in which position the outputs first differ
                j = 0
                while j < min(len(a.out), len(expect)) and a.out[j] == expect[j]:
                    j += 1
                # locate the section in which the concatenated expectation diverges
                acc = 0
                where = 0
                for pos, (k, bd) in enumerate(c):
                    acc += len(singles[(pos, k, bd)])
                    if j < acc:
                        where = pos
                        break
                else:
                    where = arity - 1
                klass = "not-independent:%s/%s->%s/%s" % (c[max(where - 1, 0)][0],
                                                           c[max(where - 1, 0)][1],
                                                           c[where][0], c[where][1]) \
                    if where > 0 else "not-independent:first:%s/%s" % c[0]
                if klass not in viols:
                    v = Violation(klass, "out(A++B) != out(A)++out(B) for sections %r: outputs "
                                  "diverge at byte %d" % (list(c), j), inp.split(b"\n")[:-1], None,
                                  expect[max(0, j - 60):j + 120], a.out[max(0, j - 60):j + 120])
                    viols[klass] = v
    drv.drop(cid)
    for v in viols.values():
        v.args = args
        v.config_label = label + "/src=" + src
    return {"label": label, "n": n, "snaps": snaps, "violations": list(viols.values()),
            "args": args, "sample": sample, "capped": False,
            "distinct": len(set(singles.values()))}


def seed_runs(cases, K):
    """cases: list of (args, input). Runs the plain binary in fresh processes under K hash seeds;
    returns (runs, distinct outputs per case list)."""
    shims = build.ensure_shims()
    out = []
    for args, data in cases:
        seen = set()
        for s in range(K):
            env = base_env()
            env["LD_PRELOAD"] = os.path.join(shims, "seedrandom.so")
            env["VERIF_RANDOM_SEED"] = str(s)
            env["DELTA_VERIF_PARENT_ARGS"] = "verif-none"
            p = subprocess.run([build.BIN] + args, input=data, env=env, stdout=subprocess.PIPE,
                               stderr=subprocess.PIPE, timeout=30)
            seen.add((p.returncode, p.stdout, p.stderr))
        out.append(seen)
    return out


ASSUMPTIONS = [
    "sections: 12 kinds x 5 hunk endings (producers.py), git and `diff -ru` sources; a section is "
    "complete (input may not end or be cut inside a section)",
    "sections in one input use distinct file names (position-specific), as in real diffs; a second family "
    "uses the same file name in consecutive sections (as `git log -p` does across commits)",
    "hash seeds: K controlled seeds of the std RandomState through an LD_PRELOAD getrandom shim, "
    "not all 2^128",
]


def main(tier):
    t0 = time.time()
    build.ensure_built()
    d = 1 if tier == "quick" else 2
    configs = deviations(DIMS, d)
    K = producers.SECTION_KINDS + ["commit", "binary_noindex", "binary_noindex_dirs", "conflict3", "conflict2",
                                    "conflict2_unnamed", "conflict2_open"]
    tasks = []
    git_secs = sections_for("git", K, producers.BODY_KINDS)
    small = sections_for("git", K, ["ctx", "minus", "nonl"])
    du_secs = sections_for("diffu", ["modified"], producers.BODY_KINDS + ["emptyctx"]) + [("binary", "ctx")]
    for label, ov, k in configs:
        if tier == "quick":
            tasks.append((label, ov, "git", git_secs if k == 0 else small, 2))
            if k == 0 or label in ("line-numbers=on", "view=sbs", "commit-style=raw"):
                # triples (one hunk ending per kind): state that survives a whole section in between
                tasks.append((label + "/triples", ov, "git", sections_for("git", K, ["minus"]), 3))
        else:
            tasks.append((label, ov, "git", git_secs if k <= 1 else small, 2))
            if k == 0:
                tasks.append((label + "/triples", ov, "git", small, 3))
            elif k == 1:
                tasks.append((label + "/triples", ov, "git",
                              sections_for("git", K, ["minus"]), 3))
        if k <= 1:
            tasks.append((label, ov, "diffu", du_secs, 2 if tier == "quick" else 3))
            # outputs of several `diff -u a b` runs one after the other (no `diff` lines); also of the same two files
            tasks.append((label, ov, "diffu_bare", du_secs, 2 if tier == "quick" else 3))
            tasks.append((label + "/same-file", ov, "diffu_bare", du_secs, 2))
            # the same file in consecutive sections (as in `git log -p` over several commits)
            tasks.append((label + "/same-file", ov, "git", small if tier == "quick" else git_secs, 2))
    cap = 45 if tier == "quick" else 900
    deadline = t0 + cap
    results = explore.pmap(run_task, [t + (deadline,) for t in tasks])
    viols = []
    n = 0
    snaps = set()
    caps = []
    rejected = []
    samples = []
    distinct = 0
    for r in results:
        if "rejected" in r:
            rejected.append((r["label"], r["rejected"][:80]))
            continue
        n += r["n"]
        snaps |= r["snaps"]
        distinct += r["distinct"]
        if r["capped"]:
            caps.append(r["label"])
        if r["sample"] and len(samples) < 4:
            samples.append(r["sample"])
        viols.extend(r["violations"])
    best = {}
    for v in viols:
        if v.klass not in best:
            best[v.klass] = v
    viols = sorted(best.values(), key=lambda v: v.klass)
    # determinism across fresh processes / hash seeds
    KS = 8 if tier == "quick" else 32
    cases = []
    for r in results[:: max(1, len(results) // (6 if tier == "quick" else 20))]:
        if "rejected" in r:
            continue
        data = sec_bytes("modified", "minusplus", 0, "git") + sec_bytes("rename_change", "ctx", 1, "git") \
            + sec_bytes("mode", "ctx", 2, "git")
        cases.append((r["args"], data))
    # ... and of what delta reports instead of rendering: error messages and the --show-config listing
    for extra in (["--plus-style", "minus-style", "--minus-style", "plus-style"],
                  ["--plus-style", "minus-emph-style", "--minus-emph-style", "zero-style", "--zero-style", "plus-style"],
                  ["--plus-style", "nosuchcolour"], ["--features", "nosuch"],
                  ["--map-styles", "bold purple => red, bold cyan => blue, bold blue => green"],
                  ["--show-config", "--map-styles", "bold purple => red, bold cyan => blue"],
                  ["--show-config", "--side-by-side", "--navigate"]):
        cases.append((["--no-gitconfig", "--paging=never"] + extra, data))
    seen = seed_runs(cases, KS)
    for (args, data), s in zip(cases, seen):
        if len(s) != 1:
            v = Violation("nondeterministic-across-processes",
                          "%d different outputs over %d hash seeds" % (len(s), KS),
                          data.split(b"\n")[:-1])
            v.args = args
            viols.append(v)
    if not n:
        raise MachineryError("nothing executed")
    cov = {
        "states": len(snaps) + 1, "transitions": n * 2,
        "traces_validated_against_impl": n * 2 + len(cases) * KS,
        "samples": samples, "section_sequences": n, "renders_of_real_code": n * 2,
        "distinct_end_snapshots_of_single_sections": len(snaps),
        "distinct_single_section_outputs": distinct,
        "configurations": len(configs), "config_deviation_bound": d,
        "configurations_rejected_by_delta": rejected,
        "fresh_process_runs_under_hash_seeds": len(cases) * KS, "hash_seeds": KS,
        "caps_hit": caps, "exhaustive": not caps,
    }
    return report.finish(PROP, tier, "model_checking", cov, viols, ASSUMPTIONS, t0, runner.seed())
