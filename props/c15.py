"""C15 - syntax highlighting only recolours foregrounds, chosen by the file's name.

E2, differential (no hand-written expected colours):
(i)  a family of diffs (rs, py, Makefile, unknown extension; removed, added, paired, unchanged
     lines; strings, comments, keywords) x every syntax theme of a light/dark class plus `none`
     x style vectors with and without `syntax`: decoded cell by cell, characters, backgrounds and
     attributes are identical across themes, and cells whose style does not ask for `syntax`
     keep exactly their configured foreground.
(ii) for every extension and whole-file name `--list-languages` reports: `x.<ext>` and
     `sub/dir/y.<ext>` colour their hunks identically; a file called exactly like a whole-name
     syntax gets it in any directory; an unknown name falls back to --default-language.
(iii) the rows of a file section are the same whether or not a section of another language precedes it.
"""
import re
import subprocess
import time

import build
import explore
import obs
import report
import runner
import term
from build import MachineryError
from driver import base_env
from explore import Violation
from lattice import build_args

PROP = "C15"

BODIES = {
    "rs": ["fn main() {", "    let s = \"str\"; // comment", "    let n: u32 = 42;", "}", "pub struct Foo<'a> { x: &'a str }"],
    "py": ["def f(x):", "    return 'a' + str(1)  # c", "class A(object):", "    pass", "import os"],
    # a cluster (emoji + variation selector) directly after a backslash in a string: themes that colour the escape put a
    # colour change inside the cluster
    "py2": ["s = \"\\\u263a\ufe0f\" + 'x'", "t = 1", "u = \"\\\u263a\ufe0f\"", "v = 2", "w = 3"],
    "Makefile": ["all: foo bar", "\t$(CC) -o $@ $^", "# comment", "VAR := value", ".PHONY: all"],
    "txt": ["plain words here", "more (text) \"quoted\" 123", "x = y + 1;", "", "tab\tseparated"],
}


def make_diff(name, lines, kind):
    head = "diff --git a/%s b/%s\n--- a/%s\n+++ b/%s\n" % (name, name, name, name)
    if kind == "mixed":
        body = "@@ -1,4 +1,4 @@ %s\n %s\n-%s\n+%s\n+%s\n %s\n" % (lines[0], lines[0], lines[1], lines[1] + " x", lines[2], lines[3])
    elif kind == "removed":
        body = "@@ -1,3 +1,0 @@\n" + "".join("-%s\n" % l for l in lines[:3])
    elif kind == "added":
        body = "@@ -0,0 +1,5 @@\n" + "".join("+%s\n" % l for l in lines)
    else:
        body = "@@ -1,5 +1,5 @@\n" + "".join(" %s\n" % l for l in lines)
    return (head + body).encode("utf-8")


STYLE_VECTORS = {
    "syntax": {"minus-style": "syntax 101", "plus-style": "syntax 104", "zero-style": "syntax",
               "minus-emph-style": "syntax 103", "plus-emph-style": "syntax 106",
               "minus-non-emph-style": "syntax 102", "plus-non-emph-style": "syntax 105",
               "hunk-header-style": "line-number syntax"},
    "explicit": {"minus-style": "160 101", "plus-style": "34 104", "zero-style": "250",
                 "minus-emph-style": "161 103", "plus-emph-style": "35 106",
                 "minus-non-emph-style": "160 102", "plus-non-emph-style": "34 105",
                 "hunk-header-style": "line-number 110"},
    "mixed": {"minus-style": "syntax bold 101", "plus-style": "34 104", "zero-style": "syntax italic",
              "minus-emph-style": "161 ul 103", "plus-emph-style": "syntax ul 106",
              "minus-non-emph-style": "syntax bold 102", "plus-non-emph-style": "34 105",
              "hunk-header-style": "line-number syntax"},
    "defaults": {},
    # every attribute in combination with `syntax`
    "syntax-attrs": {"minus-style": "syntax reverse 101", "plus-style": "syntax dim 104", "zero-style": "syntax strike",
                     "minus-emph-style": "syntax blink 103", "plus-emph-style": "syntax reverse 106",
                     "minus-non-emph-style": "syntax hidden 102", "plus-non-emph-style": "syntax ul bold 105",
                     "hunk-header-style": "line-number syntax italic"},
    # emphasised and unemphasised text painted alike except that only the latter asks for `syntax`: which cells are
    # emphasised is read from a reference render with the distinguishable vector `syntax`
    "same-bg": {"minus-style": "syntax 101", "plus-style": "syntax 104", "zero-style": "syntax",
                "minus-emph-style": "normal 101", "plus-emph-style": "normal 104",
                "minus-non-emph-style": "syntax 101", "plus-non-emph-style": "syntax 104",
                "hunk-header-style": "line-number syntax"},
}
# which element classes (by background) ask for syntax, per vector
SYNTAX_BG = {
    "syntax": {101, 102, 103, 104, 105, 106, None},
    "explicit": set(),
    "mixed": {101, 102, 106, None},
    "syntax-attrs": {101, 102, 103, 104, 105, 106, None},
}


def themes():
    env = base_env()
    p = subprocess.run([build.BIN, "--list-syntax-themes"], env=env, stdout=subprocess.PIPE)
    out = {"dark": [], "light": []}
    for line in p.stdout.decode().splitlines():
        cls, _, name = line.partition("\t")
        if cls in out and name:
            out[cls].append(name)
    return out


def hidden_names_by_language():
    """{language: [names starting with a dot]} from --list-languages (whole names of hidden files: `.env`, `.env.local`)"""
    env = base_env()
    p = subprocess.run([build.BIN, "--list-languages"], env=env, stdout=subprocess.PIPE)
    out = {}
    for line in p.stdout.decode("utf-8", "replace").splitlines():
        names = [n for n in re.findall("\x1b\\[32m(.*?)\x1b\\[0m", line) if n.startswith(".") and "/" not in n]
        lang = line.split("\x1b")[0].strip()
        if len(names) >= 2 and lang:
            out[lang] = names
    return out


def names_by_language():
    """{language: [every extension / file name --list-languages gives for it]}"""
    env = base_env()
    p = subprocess.run([build.BIN, "--list-languages"], env=env, stdout=subprocess.PIPE)
    out = {}
    for line in p.stdout.decode("utf-8", "replace").splitlines():
        names = [n for n in re.findall("\x1b\\[32m(.*?)\x1b\\[0m", line) if "/" not in n and " " not in n and n]
        lang = line.split("\x1b")[0].strip()
        if names and lang:
            out.setdefault(lang, []).extend(names)
    return out


def languages():
    env = base_env()
    p = subprocess.run([build.BIN, "--list-languages"], env=env, stdout=subprocess.PIPE)
    exts = re.findall("\x1b\\[32m(.*?)\x1b\\[0m", p.stdout.decode("utf-8", "replace"))
    return sorted(set(exts))


def cells_of(out):
    rows = []
    for row in term.decode(out):
        rows.append(row.cells())
    return rows


def run_theme_task(task):
    vec_name, cls, theme_list, diffs, deadline = task
    drv = explore.get_driver()
    base = {"no-gitconfig": True, "paging": "never", "detect-dark-light": "never", cls: True,
            "width": "60", "true-color": "always", "file-style": "109", "file-decoration-style": "117 ul",
            "hunk-header-decoration-style": "118 box"}
    if vec_name.endswith("+sbs"):
        vec_name = vec_name[:-4]
        base.update({"side-by-side": True, "width": "100"})
    base.update(STYLE_VECTORS[vec_name])
    renders = {}
    n = 0
    viols = {}
    fg_diff = 0
    for th in ["none"] + theme_list:
        o = dict(base)
        o["syntax-theme"] = th
        try:
            cid = drv.mkconfig(build_args(o))
        except explore.Rejected as e:
            raise MachineryError("theme %r rejected: %s" % (th, e))
        res = drv.render(cid, [d for _, d in diffs])
        drv.drop(cid)
        renders[th] = [cells_of(r.out) if not r.panic else None for r in res]
        n += len(diffs)
    ref = renders["none"]
    emph_mask = None
    if vec_name == "same-bg":
        o = dict(base)
        o.update(STYLE_VECTORS["syntax"])
        o["syntax-theme"] = "none"
        cid = drv.mkconfig(build_args(o))
        res = drv.render(cid, [d for _, d in diffs])
        drv.drop(cid)
        emph_mask = []
        for r in res:
            rows_ = cells_of(r.out) if not r.panic else None
            emph_mask.append(None if rows_ is None else
                             [[(st[1] in (("i", 103), ("i", 106))) for _, st in row] for row in rows_])
    for th in theme_list:
        for di, ((dname, data), a, b) in enumerate(zip(diffs, ref, renders[th])):
            if a is None or b is None:
                continue
            err = None
            mask = emph_mask[di] if emph_mask else None
            if mask is not None and ([len(r_) for r_ in mask] != [len(r_) for r_ in a]):
                raise MachineryError("same-bg: reference render has a different shape")
            if len(a) != len(b):
                err = "number of rows differs between theme none and %s" % th
            else:
                for ri, (ra, rb) in enumerate(zip(a, b)):
                    if len(ra) != len(rb):
                        err = "row length differs (%d vs %d cells)" % (len(ra), len(rb))
                        break
                    for ci_, ((ca, sa), (cb, sb)) in enumerate(zip(ra, rb)):
                        if ca != cb:
                            err = "character %r becomes %r under theme %s" % (ca, cb, th)
                        elif sa[1] != sb[1]:
                            err = "background of %r changes from %s to %s under theme %s" % (ca, sa[1], sb[1], th)
                        elif sa[2] != sb[2]:
                            err = "attributes of %r change from %d to %d under theme %s" % (ca, sa[2], sb[2], th)
                        elif sa[0] != sb[0]:
                            fg_diff += 1
                            if mask is not None and mask[ri][ci_]:
                                err = ("foreground of the emphasised %r (style `normal <bg>`, no `syntax`) changes from %s "
                                       "to %s under theme %s" % (ca, sa[0], sb[0], th))
                            if vec_name in SYNTAX_BG:
                                bgn = sa[1][1] if sa[1] is not None and sa[1][0] == "i" else None
                                cls_of_cell = bgn if bgn in (101, 102, 103, 104, 105, 106) else None
                                in_gutter = False
                                if cls_of_cell not in SYNTAX_BG[vec_name]:
                                    err = ("foreground of %r (background %s, style without `syntax`) changes from "
                                           "%s to %s under theme %s" % (ca, sa[1], sa[0], sb[0], th))
                        if err:
                            break
                    if err:
                        break
            if err:
                klass = "theme-changes-more-than-fg:" + err.split(" ")[0]
                if klass not in viols:
                    v = Violation(klass, "[%s, %s] %s" % (vec_name, dname, err), data.split(b"\n")[:-1])
                    o = dict(base)
                    o["syntax-theme"] = th
                    v.args = build_args(o)
                    v.config_label = "%s/%s vs none" % (vec_name, th)
                    viols[klass] = v
    return {"n": n, "fg_diff": fg_diff, "violations": list(viols.values()), "label": vec_name + "/" + cls}


def hunk_rows(out):
    """decoded cells of the rows after the hunk header (the part coloured by language)"""
    rows = term.decode(out)
    res = []
    started = False
    for row in rows:
        info = obs.observe_row(row)
        if "┘" in row.text or info.kind == "hunk":
            started = True
            continue
        if started:
            res.append(tuple(row.cells()))
    return res


def du_diff(name, lines):
    return ("--- %s\t2020-01-01 00:00:00.000000000 +0000\n+++ %s\t2020-01-02 00:00:00.000000000 +0000\n@@ -1,5 +1,5 @@\n"
            % (name, name) + "".join(" %s\n" % l for l in lines)).encode("utf-8")


def run_lang_task(task):
    exts, deadline = task[0], task[1]
    drv = explore.get_driver()
    base = {"no-gitconfig": True, "paging": "never", "detect-dark-light": "never", "dark": True,
            "width": "80", "true-color": "always", "syntax-theme": "Monokai Extended"}
    cid = drv.mkconfig(build_args(base))
    cid_rs = drv.mkconfig(build_args(dict(base, **{"default-language": "rs"})))
    content = ["fn main() { let s = \"x\"; } // c", "all: foo # c", "def f(x): return 'a'", "<a href=\"x\">&amp;</a>",
               "{ \"k\": [1, true, null] }"]
    n = 0
    viols = {}
    coloured = 0
    for ext in exts:
        whole = ext[:1].isupper() or ext.startswith(".") or "." not in ext and ext in ("Makefile", "Dockerfile")
        names = ["x." + ext, "sub/dir/y." + ext] if not ext.startswith(".") else [ext, "sub/dir/" + ext]
        whole_names = [ext, "sub/dir/" + ext]
        outs = []
        for nm in names + whole_names:
            d = make_diff(nm, content, "same")
            outs.append(d)
        res = drv.render(cid, outs)
        n += len(outs)
        rows = [hunk_rows(r.out) if not r.panic else None for r in res]
        if rows[0] is None or rows[1] is None:
            continue
        if rows[0] != rows[1]:
            k = "same-extension-different-colouring"
            if k not in viols:
                v = Violation(k, "x.%s and sub/dir/y.%s colour their hunks differently" % (ext, ext),
                              outs[0].split(b"\n")[:-1])
                v.args = build_args(base)
                viols[k] = v
        if rows[2] is not None and rows[3] is not None and rows[2] != rows[3]:
            k = "whole-name-depends-on-directory"
            if k not in viols:
                v = Violation(k, "%s and sub/dir/%s colour their hunks differently" % (ext, ext),
                              outs[2].split(b"\n")[:-1])
                v.args = build_args(base)
                viols[k] = v
        plain = hunk_rows(drv.render1(cid, make_diff("x.unknownext", content, "same")).out)
        if rows[0] != plain:
            coloured += 1
        # the same for plain `diff -u` output (no `diff` line; names are followed by a tab and a time stamp), also
        # when directory or file name contain a blank
        if not ext.startswith(".") and " " not in ext:
            du = [du_diff(nm, content) for nm in ("x." + ext, "my dir/y." + ext, "my x." + ext)]
            res = drv.render(cid, du)
            n += len(du)
            drows = [hunk_rows(r.out) if not r.panic else None for r in res]
            for j in (1, 2):
                if drows[0] is not None and drows[j] is not None and drows[0] != drows[j]:
                    k = "same-extension-different-colouring:diff-u"
                    if k not in viols:
                        v = Violation(k, "plain diff -u: %r and %r colour their hunks differently"
                                      % ("x." + ext, ("my dir/y." + ext, "my x." + ext)[j - 1]), du[j].split(b"\n")[:-1])
                        v.args = build_args(base)
                        viols[k] = v
            if drows[0] is not None and drows[0] != rows[0]:
                k = "language-depends-on-diff-format"
                if k not in viols:
                    v = Violation(k, "x.%s is coloured differently in git and in plain diff -u format" % ext,
                                  du[0].split(b"\n")[:-1])
                    v.args = build_args(base)
                    viols[k] = v
    # a file is not given the language of its *stem*: `<ext>.rs` is Rust whatever <ext> is
    rs_rows = hunk_rows(drv.render1(cid, make_diff("x.rs", content, "same")).out)
    stems = [e for e in exts if not e.startswith(".") and "/" not in e and " " not in e]
    for i in range(0, len(stems), 40):
        chunk = stems[i:i + 40]
        res = drv.render(cid, [make_diff(e + ".rs", content, "same") for e in chunk])
        for e, r in zip(chunk, res):
            n += 1
            if not r.panic and hunk_rows(r.out) != rs_rows:
                k = "language-from-stem"
                if k not in viols:
                    v = Violation(k, "%s.rs is not coloured like x.rs" % e, make_diff(e + ".rs", content, "same").split(b"\n")[:-1])
                    v.args = build_args(base)
                    viols[k] = v
    # all whole names of hidden files that --list-languages gives for one language colour alike (`.env` like `.env.local`)
    if task[2]:
        probe = content + ["KEY=\"value\" # comment", "[section]", "export A=1", "*.o"]
        for lang, names in sorted(hidden_names_by_language().items()):
            res = drv.render(cid, [make_diff(nm, probe, "same") for nm in names])
            n += len(names)
            rows_ = [hunk_rows(r.out) if not r.panic else None for r in res]
            for nm, r_ in zip(names[1:], rows_[1:]):
                if r_ is not None and rows_[0] is not None and r_ != rows_[0]:
                    k = "same-language-different-colouring"
                    if k not in viols:
                        v = Violation(k, "%s: files named %r and %r colour their hunks differently" % (lang, names[0], nm),
                                      make_diff(nm, probe, "same").split(b"\n")[:-1])
                        v.args = build_args(base)
                        viols[k] = v
        # every name --list-languages gives for a language selects that language, as a whole file name or as an
        # extension (`CMakeLists.txt` is CMake although `.txt` alone is not): it is not coloured like a file of
        # unknown name when the language colours the probe at all
        plain_rows = hunk_rows(drv.render1(cid, make_diff("x.unknownext", probe, "same")).out)
        for lang, entries in sorted(names_by_language().items()):
            cand = []
            for e in entries:
                cand += [e, "x." + e]
            res = drv.render(cid, [make_diff(nm, probe, "same") for nm in cand])
            n += len(cand)
            rws = [hunk_rows(r.out) if not r.panic else None for r in res]
            if any(r_ is None for r_ in rws):
                continue
            coloured_ = [r_ for r_ in rws if r_ != plain_rows]
            if not coloured_:
                continue
            ref_ = max(coloured_, key=lambda r_: sum(1 for x in coloured_ if x == r_))
            if sum(1 for x in coloured_ if x == ref_) < 2:
                continue
            for i, e in enumerate(entries):
                if rws[2 * i] == plain_rows and rws[2 * i + 1] == plain_rows:
                    k = "listed-name-not-recognised"
                    if k not in viols:
                        v = Violation(k, "%s: --list-languages names %r, but neither a file called %r nor x.%s is coloured "
                                      "as that language (both are shown like a file of unknown name)" % (lang, e, e, e),
                                      make_diff(e, probe, "same").split(b"\n")[:-1])
                        v.args = build_args(base)
                        viols[k] = v
        # a deleted file (`+++ /dev/null`) has its name on the minus side: its removed lines are coloured like the same
        # lines removed from a file that stays
        cid_ms = drv.mkconfig(build_args(dict(base, **{"minus-style": "syntax 101"})))
        for nm, key in (("x.rs", "rs"), ("y.py", "py"), ("Makefile", "Makefile")):
            r1, r2 = drv.render(cid_ms, [deleted_file_diff(nm, BODIES[key]), make_diff(nm, BODIES[key], "removed")])
            n += 2
            if not r1.panic and not r2.panic and hunk_rows(r1.out) != hunk_rows(r2.out):
                v = Violation("deleted-file-language", "the removed lines of the deleted file %s are coloured differently from "
                              "the same lines removed from the file" % nm, deleted_file_diff(nm, BODIES[key]).split(b"\n")[:-1])
                v.args = build_args(dict(base, **{"minus-style": "syntax 101"}))
                viols.setdefault("deleted-file-language", v)
        # ... also in plain `diff -u` format (`+++ /dev/null<TAB>date`), also with a blank in directory or file name
        for nm, key in (("x.rs", "rs"), ("my dir/x.rs", "rs"), ("my x.rs", "rs"), ("my dir/y.py", "py")):
            du = ("--- %s\t2020-01-01 00:00:00.000000000 +0000\n+++ /dev/null\t1970-01-01 00:00:00.000000000 +0000\n"
                  "@@ -1,3 +0,0 @@\n" % nm + "".join("-%s\n" % l for l in BODIES[key][:3])).encode("utf-8")
            r1, r2 = drv.render(cid_ms, [du, deleted_file_diff("x." + key, BODIES[key])])
            n += 2
            if not r1.panic and not r2.panic and hunk_rows(r1.out) != hunk_rows(r2.out):
                v = Violation("deleted-file-language:diff-u", "plain diff -u: the removed lines of the deleted file %r are "
                              "coloured differently from those of a deleted x.%s in git format" % (nm, key), du.split(b"\n")[:-1])
                v.args = build_args(dict(base, **{"minus-style": "syntax 101"}))
                viols.setdefault("deleted-file-language:diff-u", v)
        drv.drop(cid_ms)
        # the default language is a matter of names: a file called like it in the working directory changes nothing
        import os
        import tempfile
        d1 = tempfile.mkdtemp(prefix="c15_cwd_", dir=os.path.join(build.BUILD, "tmp") if os.path.isdir(os.path.join(build.BUILD, "tmp")) else None)
        d2 = tempfile.mkdtemp(prefix="c15_cwd_", dir=os.path.dirname(d1))
        with open(os.path.join(d2, "python"), "w") as f:
            f.write("#!/usr/bin/env python\nprint(1)\n")
        outs_ = []
        for dd in (d1, d2):
            drv2 = explore.get_driver(cwd=dd)
            c2 = drv2.mkconfig(build_args(dict(base, **{"default-language": "python"})))
            outs_.append(hunk_rows(drv2.render1(c2, make_diff("script", content, "same")).out))
            drv2.drop(c2)
            n += 1
        if outs_[0] != outs_[1]:
            v = Violation("default-language-reads-file", "--default-language python: a file `python` in the working directory "
                          "changes how a file of unknown name is coloured", make_diff("script", content, "same").split(b"\n")[:-1])
            v.args = build_args(dict(base, **{"default-language": "python"}))
            viols["dlf"] = v
        import shutil
        shutil.rmtree(d1, ignore_errors=True)
        shutil.rmtree(d2, ignore_errors=True)
    # fallback to the default language
    a = hunk_rows(drv.render1(cid_rs, make_diff("x.unknownext", content, "same")).out)
    b = hunk_rows(drv.render1(cid_rs, make_diff("x.rs", content, "same")).out)
    c = hunk_rows(drv.render1(cid, make_diff("x.unknownext", content, "same")).out)
    n += 3
    if a != b:
        v = Violation("default-language-not-used", "with --default-language rs a file of unknown name is "
                      "not coloured like x.rs", make_diff("x.unknownext", content, "same").split(b"\n")[:-1])
        v.args = build_args(dict(base, **{"default-language": "rs"}))
        viols["dl"] = v
    if a == c:
        raise MachineryError("probe content is not coloured differently as Rust and as plain text")
    drv.drop(cid)
    drv.drop(cid_rs)
    return {"n": n, "coloured": coloured, "violations": list(viols.values())}


ASSUMPTIONS = [
    "themes and syntaxes are those compiled into the pinned bat assets (--list-syntax-themes, "
    "--list-languages); theme pairs are compared through the common reference `none`",
    "style vectors: all-syntax, all-explicit, mixed, delta defaults; 24-bit colour mode",
    "which cells ask for `syntax` is known from the vector's backgrounds (reserved numbers)",
]


def deleted_file_diff(name, lines):
    return ("diff --git a/%s b/%s\ndeleted file mode 100644\nindex 1111111..0000000\n--- a/%s\n+++ /dev/null\n@@ -1,3 +0,0 @@\n"
            % (name, name, name) + "".join("-%s\n" % l for l in lines[:3])).encode("utf-8")


def run_neighbour_task(task):
    """(iii) the language of a file's hunks is chosen by that file's name alone: the rows of section B are the same
    whether or not a section A of another language precedes it (A ending in every kind of hunk, incl. removed lines
    only and a deleted file, which feed nothing to the highlighter under the default styles)"""
    vec_name, deadline = task
    drv = explore.get_driver()
    base = {"no-gitconfig": True, "paging": "never", "detect-dark-light": "never", "dark": True, "width": "60",
            "true-color": "always", "syntax-theme": "Monokai Extended"}
    base.update(STYLE_VECTORS[vec_name])
    cid = drv.mkconfig(build_args(base))
    names = {"rs": "x.rs", "py": "y.py", "py2": "w.py", "Makefile": "Makefile", "txt": "z.unknownext"}
    viols = {}
    n = 0
    differing = 0
    secs = []
    for key, lines in BODIES.items():
        for kind in ("mixed", "removed", "added", "same"):
            secs.append((key, kind, make_diff(names[key], lines, kind)))
        secs.append((key, "deleted-file", deleted_file_diff(names[key], lines)))
    alone = {}
    res = drv.render(cid, [d for _, _, d in secs])
    for (key, kind, d), r in zip(secs, res):
        alone[(key, kind)] = cells_of(r.out) if not r.panic else None
    pairs = [(a, b) for a in secs for b in secs if a[0] != b[0] and b[1] != "deleted-file"]
    res = drv.render(cid, [a[2] + b[2] for a, b in pairs])
    for (a, b), r in zip(pairs, res):
        n += 1
        if r.panic or alone[(b[0], b[1])] is None:
            continue
        joint = cells_of(r.out)
        want = alone[(b[0], b[1])]
        got = joint[len(joint) - len(want):]
        if got != want:
            differing += 1
            klass = "language-depends-on-previous-file"
            if klass not in viols:
                j = next(i for i, (x, y) in enumerate(zip(got, want)) if x != y)
                v = Violation(klass, "[%s] section %s/%s is rendered differently after %s/%s than alone (row %d of the "
                              "section: %r)" % (vec_name, b[0], b[1], a[0], a[1], j,
                                                "".join(c for c, _ in want[j])), (a[2] + b[2]).split(b"\n")[:-1])
                v.args = build_args(base)
                v.config_label = vec_name
                viols[klass] = v
    drv.drop(cid)
    return {"n": n + len(secs), "violations": list(viols.values()), "distinct": len(set(map(repr, alone.values())))}


def main(tier):
    t0 = time.time()
    build.ensure_built()
    deadline = t0 + (50 if tier == "quick" else 600)
    th = themes()
    diffs = []
    for key, lines in BODIES.items():
        for name in ({"rs": ["x.rs"], "py": ["y.py"], "py2": ["w.py"], "Makefile": ["Makefile"], "txt": ["z.unknownext"]}[key]):
            for kind in ("mixed", "removed", "added", "same"):
                diffs.append(("%s/%s" % (name, kind), make_diff(name, lines, kind)))
    tasks = []
    for vec in STYLE_VECTORS:
        for cls in ("dark", "light"):
            lst = th[cls]
            for i in range(0, len(lst), 5):
                tasks.append((vec, cls, lst[i:i + 5], diffs, deadline))
                if vec in ("syntax", "defaults"):
                    # side by side (panels are padded to their width: measuring must not depend on where colours change)
                    tasks.append((vec + "+sbs", cls, lst[i:i + 5], [d for d in diffs if d[0].startswith(("w.py", "x.rs/mixed"))], deadline))
    res = explore.pmap(run_theme_task, tasks)
    exts = languages()
    lres = explore.pmap(run_lang_task, [(exts[i:i + 40], deadline, i == 0) for i in range(0, len(exts), 40)])
    nres = explore.pmap(run_neighbour_task, [(v, deadline) for v in ("defaults", "syntax", "mixed")])
    n = sum(r["n"] for r in res) + sum(r["n"] for r in lres) + sum(r["n"] for r in nres)
    viols = []
    for r in res + lres + nres:
        viols.extend(r["violations"])
    best = {}
    for v in viols:
        if v.klass not in best:
            best[v.klass] = v
    viols = sorted(best.values(), key=lambda v: v.klass)
    cov = {
        "evaluations": n, "distinct_nontrivial": sum(r["fg_diff"] for r in res) + sum(r["coloured"] for r in lres),
        "rule": "evaluation = one render; non-trivial = cells whose foreground differs between a theme and "
                "`none` (highlighting really recoloured something) + extensions whose hunks are coloured "
                "differently from plain text",
        "samples": [{"diff": diffs[0][1].decode()}, {"extensions": exts[:8]}],
        "themes": sum(len(v) for v in th.values()), "extensions_and_names": len(exts), "diffs": len(diffs),
        "style_vectors": list(STYLE_VECTORS), "neighbour_pairs_rendered": sum(r["n"] for r in nres), "exhaustive": True,
    }
    return report.finish(PROP, tier, "exploration", cov, viols, ASSUMPTIONS, t0, runner.seed())
