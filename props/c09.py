"""C09 - output lines are self-contained, well-formed terminal text.

A monitor (independent terminal model) on bounded exhaustive families chosen for cuts and fills:
 A. side-by-side geometry family (wrapping / truncation of panels) with emphasis sections,
    hyperlinks and line numbers, both fill methods (ansi on a pty);
 B. unified view with --max-line-length 1..14 over balanced coloured input lines (every cut
    position relative to an escape sequence), as moved hunk lines and as passed-through text;
 C. boxed / underlined / overlined decorations wider and narrower than the width, long and
    wide-character names;
 D. blame and grep rows, with hyperlinks.
Oracle at every newline and at end of output: default rendition, no open hyperlink, every OSC 8
opened on a row closed on that row, no interrupted escape sequence.
"""
import itertools
import time

import build
import explore
import report
import runner
import term
from build import MachineryError
from explore import Violation
from lattice import base_opts, build_args

PROP = "C09"
ESC = "\x1b"


def monitor(out):
    """-> error string or None"""
    rows = term.decode(out)
    for i, row in enumerate(rows):
        if row.broken:
            return "row %d: %s in %r" % (i, row.broken[0], row.raw[:80])
        if row.end_style != term.DEFAULT:
            return "row %d ends with rendition %s still set: %r" % (i, term.style_str(row.end_style), row.raw[-80:])
        if row.end_link is not None:
            return "row %d ends inside a hyperlink: %r" % (i, row.raw[-80:])
    if rows and not rows[-1].terminated and rows[-1].raw != "":
        return "output does not end with a newline"
    return None


def balanced_lines(k):
    """all token sequences up to length k over text / SGR / reset / OSC 8 tokens that leave the
    terminal in its ground state"""
    toks = ["a", "漢", "b ", ESC + "[31m", ESC + "[1;38;5;200m", ESC + "[48;2;1;2;3m", ESC + "[m",
            ESC + "]8;;http://x/y" + ESC + "\\", ESC + "]8;;" + ESC + "\\"]
    out = []
    for n in range(1, k + 1):
        for combo in itertools.product(range(len(toks)), repeat=n):
            s = "".join(toks[i] for i in combo)
            rows = term.decode(s + "\n")
            r = rows[0]
            if r.broken or r.end_style != term.DEFAULT or r.end_link is not None:
                continue
            if not any(i <= 2 for i in combo):
                continue
            out.append(s)
    return out


def family_b(k):
    """inputs: balanced coloured lines as a moved removed line, an added line, context, and as
    foreign text after a commit line"""
    head = "diff --git a/f b/f\n--- a/f\n+++ b/f\n@@ -1,3 +1,3 @@\n"
    out = []
    for s in balanced_lines(k):
        body = s
        minus = ESC + "[1;35m-" + body + ESC + "[m" if not body.startswith(ESC) else "-" + body
        out.append((head + " ctx\n" + minus + "\n+" + body + "\n " + body + "\n").encode("utf-8"))
        out.append(("commit 1111111111111111111111111111111111111111\n" + body + "\n    " + body + "\n").encode("utf-8"))
        # the same text in a line that is not valid UTF-8 (a Latin-1 byte at either end)
        out.append(b"commit 1111111111111111111111111111111111111111\n" + body.encode("utf-8") + b" caf\xe9\n"
                   + b"\xe9 " + body.encode("utf-8") + b"\n")
    return out


def family_c():
    names = ["f.txt", "a-very-long-directory-name/with/a-long-file-name.txt", "漢漢漢漢漢漢漢漢漢漢.rs", "é.rs"]
    out = []
    for nm in names:
        out.append(("commit 1111111111111111111111111111111111111111\nAuthor: A\n\n    msg\n\n"
                    "diff --git a/%s b/%s\n--- a/%s\n+++ b/%s\n@@ -1,2 +1,2 @@ fn a_long_function_name(with, many, arguments)\n"
                    " a\n-b\n+\n-\n+c\n" % (nm, nm, nm, nm)).encode("utf-8"))
        out.append(("diff --git a/%s b/%s2\nsimilarity index 100%%\nrename from %s\nrename to %s2\n"
                    "diff --git a/m b/m\nold mode 100644\nnew mode 100755\n" % (nm, nm, nm, nm)).encode("utf-8"))
    return out


def family_d():
    h = "0123456789abcdef0123456789abcdef01234567"
    blame = "".join("%s (A U Thor 2020-01-0%d 00:00:00 +0000 %d) line %d 漢\n" % (h[i:i + 8], i + 1, i + 1, i)
                    for i in range(4))
    grep = "src/a.rs:1:fn main() {\nsrc/a.rs-2-    let x = 1;\nsrc/a.rs:3:    main();\n--\nsrc/b.rs=7=fn f()\nsrc/b.rs:9:  main()\n"
    rg = ('{"type":"begin","data":{"path":{"text":"src/a.rs"}}}\n'
          '{"type":"match","data":{"path":{"text":"src/a.rs"},"lines":{"text":"\\tfn main() { 漢 }\\n"},"line_number":1,"absolute_offset":0,"submatches":[{"match":{"text":"main"},"start":4,"end":8}]}}\n'
          '{"type":"context","data":{"path":{"text":"src/a.rs"},"lines":{"text":"x\\n"},"line_number":2,"absolute_offset":0,"submatches":[]}}\n'
          # a match spanning two lines (rg -U): one record
          '{"type":"match","data":{"path":{"text":"src/a.rs"},"lines":{"text":"fn foo(\\n    bar: u32,\\n"},"line_number":3,"absolute_offset":0,"submatches":[{"match":{"text":"foo(\\n    bar"},"start":3,"end":15}]}}\n')
    return [("blame", ["git", "blame", "f.rs"], blame.encode()), ("grep", ["git", "grep", "-n", "main"], grep.encode()),
            ("rg", None, rg.encode())]


# characters whose lower-/upper-case form has a different byte length (code that measures on a case-folded
# copy and cuts the original goes wrong exactly there), a combining mark, a zero-width joiner sequence
CASE_CHARS = ["\u0130", "\u212a", "\u212b", "\u1e9e", "\u023a", "\u00df", "\ufb01", "\u0149", "e\u0301",
              "\U0001f468\u200d\U0001f469"]


def family_e():
    head = "diff --git a/f b/f\n--- a/f\n+++ b/f\n@@ -1,3 +1,3 @@\n"
    out = []
    for ch in CASE_CHARS:
        for body in (ch, "x" + ch, ch + "y", "x " + ch + ch + " y", ch * 12):
            out.append((head + " " + body + "\n-" + body + "\n+" + body + "z\n").encode("utf-8"))
            out.append((head + "-" + body + "\n").encode("utf-8"))
            out.append((head + "+" + body + "\n").encode("utf-8"))
    return out


def family_f(k):
    """lines that bring their own hyperlinks and colours along, with commit hashes in the text and in the URL
    (a `git log` pretty format with %x1b]8;;...): as passed-through log text and as the commit line itself"""
    h = "0123456789abcdef0123456789abcdef01234567"
    toks = ["deadbeef1 ", "x ", ESC + "[33m", ESC + "[m", ESC + "]8;;http://x/commit/" + h + ESC + "\\",
            ESC + "]8;;http://x/" + h[:9] + "\x07", ESC + "]8;;" + ESC + "\\"]
    out = []
    for n in range(1, k + 1):
        for combo in itertools.product(range(len(toks)), repeat=n):
            line = "".join(toks[i] for i in combo)
            r = term.decode(line + "\n")[0]
            if r.broken or r.end_style != term.DEFAULT or r.end_link is not None or not any(i <= 1 for i in combo):
                continue
            out.append(("commit " + h + "\n" + line + "\n").encode("utf-8"))
            out.append((ESC + "[33mcommit " + h + ESC + "[m (" + line + ")\n").encode("utf-8"))
    return out


def family_g():
    """file names with control characters in them: git prints such names quoted (the input holds no escape
    sequence at all), rg --json as JSON escapes"""
    out = []
    for q, js in (("new\\nline.txt", "new\\nline.txt"), ("esc\\033[31mx.txt", "esc\\u001b[31mx.txt"),
                  ("bel\\ax.txt", "bel\\u0007x.txt"), ("cr\\rx.txt", "cr\\rx.txt"), ("tab\\tx.txt", "tab\\tx.txt"),
                  ("st\\033\\\\x.txt", "st\\u001b\\\\x.txt"), ("del\\177x.txt", "del\\u007fx.txt")):
        diff = ('diff --git "a/%s" "b/%s"\n--- "a/%s"\n+++ "b/%s"\n@@ -1,2 +1,2 @@\n a\n-b\n+c\n' % (q, q, q, q))
        out.append((None, diff.encode()))
        out.append((None, ('diff --git "a/%s" "b/2%s"\nsimilarity index 100%%\nrename from "%s"\nrename to "2%s"\n'
                           % (q, q, q, q)).encode()))
        out.append((None, ('diff --git "a/%s" "b/%s"\nold mode 100644\nnew mode 100755\n' % (q, q)).encode()))
        out.append((None, (' "%s" | 2 +-\n 1 file changed\n\n' % q + diff).encode()))
        out.append((["git", "grep", "-n", "x"], ('"%s":1:x y\n"%s"-2-z\n' % (q, q)).encode()))
        out.append((None, ('{"type":"begin","data":{"path":{"text":"./%s"}}}\n'
                           '{"type":"match","data":{"path":{"text":"./%s"},"lines":{"text":"x y\\n"},"line_number":1,'
                           '"absolute_offset":0,"submatches":[{"match":{"text":"x"},"start":0,"end":1}]}}\n'
                           '{"type":"end","data":{"path":{"text":"./%s"},"binary_offset":null,"stats":{}}}\n'
                           % (js, js, js)).encode()))
    return out


def family_h(mll):
    """lines far longer in bytes than in columns (every character in its own colours, some in their own hyperlink):
    byte lengths on a ladder from 0.5 kB to 40 kB, widths below and above the limit, and - since a cut made by bytes
    lands somewhere inside a sequence - every padding 0..period-1 in front"""
    units = [ESC + "[38;2;10;20;30m" + "x" + ESC + "[m",
             ESC + "[38;2;10;20;30m" + ESC + "[48;2;40;50;60m" + ESC + "[1m" + ESC + "[3m" + "y" + ESC + "[m",
             ESC + "]8;;http://h/abcdefghij" + ESC + "\\" + ESC + "[1;35m" + "z" + ESC + "[m" + ESC + "]8;;" + ESC + "\\"]
    out = []
    head = "diff --git a/f b/f\n--- a/f\n+++ b/f\n@@ -1,3 +1,3 @@\n"
    for u in units:
        for nbytes in (500, 1500, 3000, 6000, 14000, 40000):
            n = nbytes // len(u) + 1
            if n > mll and n - mll > 3 * mll + 50:
                n = mll - len(u) if mll > 2 * len(u) else max(1, mll // 2)     # (dense: within the limit in columns)
                if n * len(u) < 400:
                    continue
            for pad in range(0, len(u) + 1):
                body = "p" * pad + u * n
                out.append(("commit 1111111111111111111111111111111111111111\n" + body + "\n").encode())
                if pad % 5 == 0:
                    out.append((head + " " + body + "\n+" + body + "\n").encode())
                    out.append((head + ESC + "[1;35m-" + ESC + "[m" + body + "\n").encode())
    return out


def run_task(task):
    label, opts, caller, pty, inputs, deadline = task
    plain = opts.get("_plain")
    opts = {k: v for k, v in opts.items() if not k.startswith("_")}
    args = build_args(base_opts(opts, reserved=not plain))
    drv = explore.get_driver(caller=caller, pty=pty)
    try:
        cid = drv.mkconfig(args)
    except explore.Rejected as e:
        return {"label": label, "rejected": str(e)[:80], "n": 0}
    n = 0
    rows = 0
    esc_rows = 0
    viols = {}
    capped = False
    for i in range(0, len(inputs), 200):
        if time.time() > deadline:
            capped = True
            break
        chunk = inputs[i:i + 200]
        res = explore.render_robust(drv, cid, chunk)
        for inp, r in zip(chunk, res):
            n += 1
            if isinstance(r, Exception) or r.panic:
                continue    # C03's business
            err = monitor(r.out)
            rows += r.out.count(b"\n")
            esc_rows += sum(1 for l in r.out.split(b"\n") if b"\x1b" in l)
            if err:
                klass = "leak:" + err.split(":", 1)[1].strip().split(" ")[0:3].__str__()
                if "interrupted" in err or "lone ESC" in err or "unterminated" in err or "OSC" in err:
                    klass = "malformed-sequence"
                elif "rendition" in err:
                    klass = "rendition-leaks-past-newline"
                elif "hyperlink" in err:
                    klass = "hyperlink-open-at-newline"
                else:
                    klass = "other:" + err[:30]
                if klass not in viols or len(inp) < len(b"\n".join(viols[klass].history)):
                    v = Violation(klass, err, inp.split(b"\n")[:-1])
                    v.args = args
                    v.caller = caller
                    v.pty = pty
                    v.config_label = label
                    viols[klass] = v
    drv.drop(cid)
    return {"label": label, "n": n, "rows": rows, "esc_rows": esc_rows,
            "violations": list(viols.values()), "capped": capped, "args": args}


ASSUMPTIONS = [
    "inputs' own escape sequences are balanced (generated and verified with the same terminal model)",
    "families A-D as described in the module docstring, G: quoted / JSON-escaped control characters in file names, H: lines far longer in bytes than in columns (0.5-40 kB, every padding in front), F: log lines carrying their own OSC 8 links with commit hashes "
    "under --hyperlinks, E: hunk lines containing characters whose case mappings "
    "change their byte length; values outside them are not covered",
    "renders that crash are C03's business and are skipped here",
]


def main(tier):
    import c07
    t0 = time.time()
    build.ensure_built()
    cap = 50 if tier == "quick" else 900
    deadline = t0 + cap
    tasks = []
    # A: side-by-side family
    L = 4 if tier == "quick" else 6
    cont = c07.contents(L)
    sbs_inputs = [c07.make_input(s) for c in cont for s in c07.specs_for(c)]
    for W in ([18, 19, 23, 40] if tier == "quick" else [18, 19, 20, 21, 23, 26, 40, 41]):
        for wrap in ("2", "0", "unlimited"):
            o = {"side-by-side": True, "width": str(W), "wrap-max-lines": wrap, "hyperlinks": True,
                 "tabs": "3", "max-line-distance": "1", "line-fill-method": "spaces"}
            tasks.append(("A:sbs,W=%d,wrap=%s,links" % (W, wrap), o, None, None, sbs_inputs))
        o = {"side-by-side": True, "width": None, "hyperlinks": True, "tabs": "3",
             "line-fill-method": "ansi", "keep-plus-minus-markers": True}
        tasks.append(("A:sbs,W=%d,ansi,pty" % W, o, None, (24, W), sbs_inputs))
    # B: truncation of coloured lines
    fb = family_b(4 if tier == "quick" else 5)
    for ml in (range(1, 15) if tier == "thorough" else [1, 2, 3, 4, 5, 6, 8, 11, 14]):
        for extra_label, extra in (("", {}), (",ln", {"line-numbers": True}), (",sbs", {"side-by-side": True, "width": "30"})):
            if tier == "quick" and extra_label == ",sbs" and ml not in (3, 6):
                continue
            o = dict(extra)
            o["max-line-length"] = str(ml)
            tasks.append(("B:max-line-length=%d%s" % (ml, extra_label), o, None, None, fb))
    tasks.append(("B:raw-styles", {"minus-style": "raw", "plus-style": "raw", "zero-style": "raw",
                                   "max-line-length": "7"}, None, None, fb))
    tasks.append(("B:pty-ansi-fill", {"width": None, "line-fill-method": "ansi", "hyperlinks": True}, None, (24, 33), fb))
    # C: decorations
    fc = family_c()
    for W in (5, 12, 40, 200):
        for deco in ("box", "ul", "ol", "ul ol", "box ul", "none"):
            for st in ("117 " + deco,):
                o = {"width": str(W), "file-decoration-style": st, "hunk-header-decoration-style": "118 " + deco,
                     "commit-decoration-style": "119 " + deco, "hyperlinks": True, "navigate": True,
                     "hunk-header-style": "file line-number 110", "line-numbers": True}
                tasks.append(("C:W=%d,deco=%s" % (W, deco), o, None, None, fc))
                tasks.append(("C:W=%d,deco=%s,pty" % (W, deco), dict(o, width=None), None, (24, W), fc))
    # E: characters with length-changing case mappings, in every fill / view
    fe = family_e()
    for label, o, pty in [("default", {}, None), ("ln", {"line-numbers": True}, None),
                          ("sbs", {"side-by-side": True, "width": "30"}, None),
                          ("spaces", {"line-fill-method": "spaces"}, None),
                          ("pty-ansi", {"width": None, "line-fill-method": "ansi"}, (24, 33)),
                          ("pty-sbs-ansi", {"width": None, "side-by-side": True, "line-fill-method": "ansi"}, (24, 33)),
                          ("max-line-length=3", {"max-line-length": "3"}, None),
                          ("delta-default-styles", {"_plain": True}, None)]:
        tasks.append(("E:" + label, o, None, pty, fe))
    # F: hyperlinks added to lines which carry hyperlinks already
    ff = family_f(4 if tier == "quick" else 5)
    for label, o, pty in [("links", {"hyperlinks": True, "hyperlinks-commit-link-format": "http://h/{commit}"}, None),
                          ("links,raw-commit", {"hyperlinks": True, "hyperlinks-commit-link-format": "http://h/{commit}",
                                                "commit-style": "raw", "commit-decoration-style": "119 box"}, None),
                          ("links,pty", {"hyperlinks": True, "hyperlinks-commit-link-format": "http://h/{commit}",
                                         "width": None}, (24, 60))]:
        tasks.append(("F:" + label, o, None, pty, ff))
    # G: control characters in file names
    fg = family_g()
    for o in ({}, {"hyperlinks": True}, {"hyperlinks": True, "line-numbers": True},
              {"hyperlinks": True, "side-by-side": True, "width": "60"}, {"hyperlinks": True, "navigate": True},
              {"grep-output-type": "classic", "hyperlinks": True}, {"grep-output-type": "classic"},
              {"relative-paths": True, "hyperlinks": True},
              {"hyperlinks": True, "hyperlinks-file-link-format": "x://{host}/{path}#{line}"}):
        for caller in sorted(set(map(lambda c: tuple(c[0]) if c[0] else None, fg)), key=str):
            tasks.append(("G:%s,%s" % ("grep" if caller else "diff", ",".join(sorted(o))), o, list(caller) if caller else None, None,
                          [d for c, d in fg if (tuple(c) if c else None) == caller]))
    # H: dense lines
    for mll in (None, "100", "20"):
        fh = family_h(int(mll or 3000))
        for label, o in (("", {}), (",links", {"hyperlinks": True}), (",sbs", {"side-by-side": True, "width": "40"})):
            if tier == "quick" and label == ",sbs" and mll is None:
                continue
            o = dict(o)
            if mll:
                o["max-line-length"] = mll
            tasks.append(("H:max-line-length=%s%s" % (mll or "default", label), o, None, None, fh))
    # D: blame / grep
    for name, caller, data in family_d():
        for o in ({}, {"hyperlinks": True}, {"hyperlinks": True, "navigate": True, "width": "20"},
                  {"grep-output-type": "classic", "hyperlinks": True}):
            tasks.append(("D:%s,%s" % (name, ",".join(sorted(o))), o, caller, None, [data]))
            tasks.append(("D:%s,%s,pty" % (name, ",".join(sorted(o))), dict(o, width=None), caller, (24, 50), [data]))
    split = []
    for label, o, caller, pty, inputs in tasks:
        step = 100 if label.startswith("H:") else 1500
        for i in range(0, len(inputs), step):
            split.append((label, o, caller, pty, inputs[i:i + step], deadline))
    res = explore.pmap(run_task, split)
    n = sum(r["n"] for r in res)
    rows = sum(r.get("rows", 0) for r in res)
    esc_rows = sum(r.get("esc_rows", 0) for r in res)
    viols = []
    caps = sorted(set(r["label"] for r in res if r.get("capped")))
    rejected = sorted(set(r["label"] for r in res if "rejected" in r))
    for r in res:
        viols.extend(r.get("violations", []))
    best = {}
    for v in viols:
        if v.klass not in best or sum(map(len, v.history)) < sum(map(len, best[v.klass].history)):
            best[v.klass] = v
    viols = sorted(best.values(), key=lambda v: v.klass)
    cov = {
        "evaluations": n, "distinct_nontrivial": esc_rows,
        "rule": "evaluation = one input rendered by the real code under one configuration, all of its output "
                "rows monitored; non-trivial = output rows that contain at least one escape sequence "
                "(%d of %d rows)" % (esc_rows, rows),
        "samples": [{"family": "B", "input": fb[7].decode("latin-1")},
                    {"family": "A", "input": sbs_inputs[50].decode("latin-1")}],
        "configurations": len(tasks), "rows_monitored": rows, "configurations_rejected": rejected,
        "caps_hit": caps, "exhaustive": not caps,
    }
    return report.finish(PROP, tier, "exploration", cov, viols, ASSUMPTIONS, t0, runner.seed())
