"""C20 - calling-process detection gives the same answer under every thread schedule.

E3 (loom 0.7): the harness crate /verif/loom_c20 compiles the text of /repo/src/utils/process.rs
itself with its std::sync primitives rewritten to loom's (build.rs; every rewrite anchor must match
exactly once) and explores every interleaving of the background determination, the publication of a
known command and 1-4 queries on 1-3 threads (unbounded DPOR for the small scenarios, preemption
bound for the large ones). Oracle: no query returns Pending, a known command is always reported,
without one the guess is reported, no deadlock.
E4: a small model of the protocol at critical-section granularity enumerates every feasible order of
the H4 points; each is forced on the real binary (DELTA_VERIF_SCHED) running `delta git grep ...`
over a stub git / reading blame output on stdin, and the observable rendering must match the model.
"""
import itertools
import os
import re
import stat
import subprocess
import time

import build
import report
import runner
import term
from build import BUILD, VERIF, MachineryError
from driver import base_env
from explore import Violation

PROP = "C20"
LOOM_TARGET = os.path.join(BUILD, "loom_target")
LOOM_BIN = os.path.join(LOOM_TARGET, "release", "loom_c20")


def build_loom():
    env = dict(os.environ)
    env["CARGO_TARGET_DIR"] = LOOM_TARGET
    env["CARGO_NET_OFFLINE"] = "true"
    env["VERIF_REPO"] = build.REPO
    # the rewritten source is produced by build.rs from the working tree: force it to re-run
    p = subprocess.run(["cargo", "build", "--release", "--offline"], cwd=os.path.join(VERIF, "loom_c20"),
                       env=env, stdout=subprocess.PIPE, stderr=subprocess.STDOUT)
    if p.returncode != 0:
        raise MachineryError("building the loom harness failed (a rewrite anchor no longer matches, or the "
                             "source does not compile under loom):\n" + p.stdout.decode()[-3000:])


def scenarios(tier):
    """(known, main queries, thread queries, query threads, preemption bound)"""
    out = []
    # a launched command delta has no special handling for (`git status`): reported as launched (None), never the guess
    out.append((2, 1, 0, 1, "none"))
    out.append((2, 2, 0, 1, "none"))
    out.append((2, 1, 1, 1, "none"))
    out.append((2, 1, 1, 2, "3"))
    for known in (0, 1):
        for mq in (1, 2, 3):
            out.append((known, mq, 0, 1, "none"))
            for tq in (1, 2):
                out.append((known, mq, tq, 1, "none"))
        out.append((known, 2, 2, 2, "3"))
        out.append((known, 1, 1, 2, "none" if (known or tier == "thorough") else "3"))
        if tier == "thorough":
            out.append((known, 4, 4, 1, "none"))
            out.append((known, 3, 3, 1, "none"))
            out.append((known, 2, 2, 2, "none"))
            out.append((known, 3, 2, 2, "3"))
    return out


def run_loom(sc):
    t0 = time.time()
    p = subprocess.run([LOOM_BIN] + [str(x) for x in sc], stdout=subprocess.PIPE, stderr=subprocess.PIPE,
                       env={"PATH": os.environ.get("PATH", ""), "RUST_BACKTRACE": "0"}, timeout=1500)
    out = p.stdout.decode()
    m = re.search(r"OK schedules=(\d+)", out)
    if p.returncode == 0 and m:
        return {"sc": sc, "ok": True, "schedules": int(m.group(1)), "wall": time.time() - t0}
    err = p.stderr.decode()
    msg = "\n".join(l for l in err.splitlines() if "panicked" in l or "assertion" in l or "deadlock" in l
                    or "left:" in l or "right:" in l)[:600]
    return {"sc": sc, "ok": False, "message": msg or err[-400:], "wall": time.time() - t0}


# ---------------------------------------------------------------------------------------------
# E4: forced orders on the real binary

def protocol_model(order, known, guess):
    """sequentially consistent model at critical-section granularity -> what the first query returns"""
    value, source = "Pending", "guessed"
    result = None
    waiting = False
    for p in order:
        if p == "T.done":
            if source == "guessed":
                value = guess
            if waiting:
                result = value
                waiting = False
        elif p == "S.done":
            value, source = known, "known"
        elif p == "Q.lock":
            if value != "Pending":
                result = value
            else:
                waiting = True
    return result


def feasible_orders(known):
    main = ["S.lock", "S.done", "Q.lock"] if known else ["Q.lock"]
    T = ["T.lock", "T.done"]
    out = []
    for pos in range(len(main) + 1):
        o = main[:pos] + T + main[pos:]
        # a critical section may not be entered while the other one is open
        if "S.lock" in o and o.index("S.lock") < o.index("T.lock") < o.index("S.done"):
            continue
        out.append(o)
    return out


def stub_dir():
    d = os.path.join(BUILD, "stubs_c20")
    os.makedirs(d, exist_ok=True)
    p = os.path.join(d, "git")
    with open(p, "w") as f:
        f.write("#!/bin/sh\nprintf 'src/a.rs:7:fn main() {\\nsrc/a.rs:9:main();\\n'\n")
    os.chmod(p, os.stat(p).st_mode | stat.S_IXUSR | stat.S_IXGRP | stat.S_IXOTH)
    return d


def run_forced(order, known):
    env = base_env()
    env["DELTA_VERIF_SCHED"] = ",".join(order)
    logf = os.path.join(BUILD, "tmp", "sched_%d.log" % os.getpid())
    os.makedirs(os.path.dirname(logf), exist_ok=True)
    if os.path.exists(logf):
        os.unlink(logf)
    env["DELTA_VERIF_SCHED_LOG"] = logf
    args = ["--no-gitconfig", "--paging=never", "--detect-dark-light=never", "--grep-file-style=122",
            "--blame-palette=127 128"]
    if known:
        env["PATH"] = stub_dir() + ":" + env["PATH"]
        env["DELTA_VERIF_PARENT_ARGS"] = "git diff"            # the background guess
        p = subprocess.run([build.BIN] + args + ["git", "grep", "-n", "main"], env=env, stdin=subprocess.DEVNULL,
                           stdout=subprocess.PIPE, stderr=subprocess.PIPE, timeout=40)
        rendered_as = "known" if b"\x1b[38;5;122msrc/a.rs" in p.stdout else "guess"
    else:
        env["DELTA_VERIF_PARENT_ARGS"] = "git blame f.rs"
        data = b"01234567 (A U Thor 2020-01-01 00:00:00 +0000 1) line one\n"
        p = subprocess.run([build.BIN] + args, env=env, input=data, stdout=subprocess.PIPE,
                           stderr=subprocess.PIPE, timeout=40)
        rendered_as = "guess" if b"\x1b[48;5;127m" in p.stdout else "none"
    passed = open(logf).read().split() if os.path.exists(logf) else []
    return p.returncode, rendered_as, passed, p.stderr.decode()[-200:]


def first_use_cases():
    """The launched command is published before anything of the main thread asks for it: with a launched
    `git diff --word-diff` (known) and a background guess `git diff`, options that word-diff disables must be
    disabled from the first use on. Differential: output with and without the option is the same; and the forced
    order "background guess first, then publication, then the first query" must be feasible."""
    d = os.path.join(BUILD, "stubs_c20_wd")
    os.makedirs(d, exist_ok=True)
    p = os.path.join(d, "git")
    with open(p, "w") as f:
        f.write("#!/bin/sh\nprintf 'diff --git a/f b/f\\n--- a/f\\n+++ b/f\\n@@ -1,2 +1,2 @@\\n ctx\\na [-b-]{+c+} d\\n'\n")
    os.chmod(p, os.stat(p).st_mode | stat.S_IXUSR | stat.S_IXGRP | stat.S_IXOTH)
    base = ["--no-gitconfig", "--paging=never", "--detect-dark-light=never", "--width=60"]
    out = []
    n = 0
    for opt in ("--line-numbers", "--side-by-side"):
        for wd in ("--word-diff", "--color-words", "--word-diff-regex=x"):
            for order in (None, ["T.lock", "T.done", "S.lock", "S.done", "Q.lock"]):
                env = base_env()
                env["PATH"] = d + ":" + env["PATH"]
                env["DELTA_VERIF_PARENT_ARGS"] = "git diff"
                if order:
                    env["DELTA_VERIF_SCHED"] = ",".join(order)
                a = subprocess.run([build.BIN] + base + [opt, "git", "diff", wd], env=env, stdin=subprocess.DEVNULL,
                                   stdout=subprocess.PIPE, stderr=subprocess.PIPE, timeout=60)
                b = subprocess.run([build.BIN] + base + ["git", "diff", wd], env=env, stdin=subprocess.DEVNULL,
                                   stdout=subprocess.PIPE, stderr=subprocess.PIPE, timeout=60)
                n += 2
                err = None
                if a.returncode == 97 or b.returncode == 97:
                    err = "the first query of the main thread comes before the launched command is published (%s)" \
                        % (a.stderr or b.stderr).decode()[-120:]
                elif a.returncode != 0 or b.returncode != 0:
                    err = "exit status %d / %d: %s" % (a.returncode, b.returncode, (a.stderr or b.stderr).decode()[-200:])
                elif a.stdout != b.stdout:
                    err = "`%s` is in effect although the launched command is `git diff %s` (stale guess `git diff`)" % (opt, wd)
                if err:
                    v = Violation("known-not-used-at-first-query", "delta %s git diff %s%s: %s"
                                  % (opt, wd, " under order " + ",".join(order) if order else "", err),
                                  None, None, b.stdout[:300], a.stdout[:300], {"DELTA_VERIF_SCHED": order})
                    v.args = base + [opt, "git", "diff", wd]
                    out.append(v)
    return n, out


def launched_cases():
    """Every way delta launches a command itself, under every feasible total order of the hook points (and free-running):
    (a) `delta git diff-tree -p HEAD` - a git command delta has no special handling for - while the background search
    "finds" `git grep -n one`: the stub's output must not be rendered as grep output;
    (b) `delta -@--word-diff a b` (delta starts `git diff --no-index ... --word-diff` itself) while the search finds
    a plain `git diff`: the output must be the one of the explicitly launched `delta git diff --no-index --color
    --word-diff -- a b`."""
    d = os.path.join(BUILD, "stubs_c20_launch")
    os.makedirs(d, exist_ok=True)
    p = os.path.join(d, "git")
    with open(p, "w") as f:
        f.write("#!/bin/sh\ncase \"$*\" in\n  *--version*) echo 'git version 2.42.0';;\n"
                "  *diff-tree*) printf 'src/a.rs:7:line one\\n';;\n"
                "  *) printf 'diff --git a/a.txt b/b.txt\\n--- a/a.txt\\n+++ b/b.txt\\n@@ -1,2 +1,2 @@\\n ctx\\nalpha [-beta-]{+BETA+} gamma\\n';;\nesac\n")
    os.chmod(p, os.stat(p).st_mode | stat.S_IXUSR | stat.S_IXGRP | stat.S_IXOTH)
    for name in ("a.txt", "b.txt"):
        with open(os.path.join(d, name), "w") as f:
            f.write("ctx\nalpha %s gamma\n" % ("beta" if name == "a.txt" else "BETA"))
    base = ["--no-gitconfig", "--paging=never", "--detect-dark-light=never", "--width=60", "--grep-file-style=122"]
    out = []
    n = 0

    def run(extra, guess, order):
        env = base_env()
        env["PATH"] = d + ":" + env["PATH"]
        env["DELTA_VERIF_PARENT_ARGS"] = guess
        if order:
            env["DELTA_VERIF_SCHED"] = ",".join(order)
        return subprocess.run([build.BIN] + base + extra, env=env, cwd=d, stdin=subprocess.DEVNULL,
                              stdout=subprocess.PIPE, stderr=subprocess.PIPE, timeout=60)
    ref = run(["git", "diff", "--no-index", "--color", "--word-diff", "--", "a.txt", "b.txt"], "git diff", None)
    if ref.returncode not in (0, 1) or b"BETA" not in ref.stdout:
        raise MachineryError("launched_cases: reference run failed: %r %r" % (ref.returncode, ref.stderr[-200:]))
    for order in [None] + feasible_orders(True):
        a = run(["git", "diff-tree", "-p", "HEAD"], "git grep -n one", order)
        n += 1
        err = None
        if a.returncode == 97:
            err = "order infeasible: the launched command is never published (%s)" % a.stderr.decode()[-100:]
        elif b"\x1b[38;5;122m" in a.stdout or b"line one" not in a.stdout:
            err = "the output of the launched `git diff-tree` is rendered as grep output (the background guess)"
        if err:
            v = Violation("launched-command-not-reported:undescribed", "delta git diff-tree -p HEAD%s: %s"
                          % (" under order " + ",".join(order) if order else "", err), None, None, None, a.stdout[:300],
                          {"DELTA_VERIF_SCHED": order, "DELTA_VERIF_PARENT_ARGS": "git grep -n one"})
            v.args = base + ["git", "diff-tree", "-p", "HEAD"]
            out.append(v)
        b = run(["-@--word-diff", "a.txt", "b.txt"], "git diff", order)
        n += 1
        err = None
        if b.returncode == 97:
            err = "order infeasible: the command started for the two files is never published (%s)" % b.stderr.decode()[-100:]
        elif b.stdout != ref.stdout:
            err = "output differs from that of the explicitly launched git diff --word-diff (stale or guessed caller)"
        if err:
            v = Violation("launched-command-not-reported:two-files", "delta -@--word-diff a.txt b.txt%s: %s"
                          % (" under order " + ",".join(order) if order else "", err), None, None, ref.stdout[:300], b.stdout[:300],
                          {"DELTA_VERIF_SCHED": order, "DELTA_VERIF_PARENT_ARGS": "git diff"})
            v.args = base + ["-@--word-diff", "a.txt", "b.txt"]
            out.append(v)
    return n, out


ASSUMPTIONS = [
    "loom explores sequentially consistent interleavings plus its C11 model of the SeqCst atomics used; it "
    "does not model spurious condvar wake-ups (std's wait_while loop, reproduced verbatim in the harness shim, "
    "tolerates them by construction)",
    "the scan of the process table is replaced by a harness constant; everything else is the file's own text "
    "(rewrites listed in loom_c20/build.rs, each required to match exactly once)",
    "binary replay forces total orders of the H4 points T.lock/T.done/S.lock/S.done/Q.lock (first query)",
]


def main(tier):
    t0 = time.time()
    build.ensure_built()
    build_loom()
    viols = []
    scs = scenarios(tier)
    import explore
    res = explore.pmap(run_loom, scs)
    total = 0
    samples = []
    for r in res:
        if r["ok"]:
            total += r["schedules"]
            samples.append({"scenario(known,main q,thread q,threads,preemption bound)": list(r["sc"]),
                            "schedules": r["schedules"]})
        else:
            what = "deadlock" if "deadlock" in r["message"] else \
                "pending" if "unfinished" in r["message"] else "wrong-answer"
            v = Violation("schedule:" + what, "loom scenario %r: %s" % (r["sc"], r["message"]), None, None, None,
                          r["message"], {"replay": "%s %s" % (LOOM_BIN, " ".join(str(x) for x in r["sc"]))})
            viols.append(v)
    # E4
    nforced = 0
    for known in (True, False):
        for order in feasible_orders(known):
            want = protocol_model(order, "known", "guess")
            if not known and want is None:
                want = "guess"
            status, got, passed, err = run_forced(order, known)
            nforced += 1
            if status == 97:
                # the orders come from the protocol model, whose main thread publishes before it first asks: a binary
                # that cannot pass its points in such an order asks before it has published (or never publishes)
                v = Violation("forced-order:infeasible", "order %s, which the protocol allows, cannot be taken by the binary "
                              "(%s): the main thread's publication and first query are not in the protocol's order"
                              % (",".join(order), (err or "").strip()[-160:]), None, None, None, None,
                              {"DELTA_VERIF_SCHED": order, "known": known})
                viols.append(v)
                continue
            if passed[:len(order)] != order:
                raise MachineryError("binary did not pass the H4 points in the forced order: wanted %r got %r"
                                     % (order, passed))
            if status != 0 or got != want:
                v = Violation("forced-order:" + ("known" if known else "no-known"),
                              "order %s: the binary behaves as if the calling process were %r, the protocol says %r "
                              "(exit %d)" % (",".join(order), got, want, status), None, None, want, got,
                              {"DELTA_VERIF_SCHED": ",".join(order)})
                viols.append(v)
    nfirst, fv = first_use_cases()
    nl, lv = launched_cases()
    nfirst += nl
    seen = set()
    for v in lv:
        if v.klass not in seen:
            seen.add(v.klass)
            fv.append(v)
    viols.extend(fv)
    best = {}
    for v in viols:
        best.setdefault(v.klass, v)
    viols = list(best.values())
    cov = {
        "states": total, "transitions": total,
        "traces_validated_against_impl": nforced + nfirst, "first_use_runs_on_binary": nfirst,
        "samples": samples[:6],
        "schedules_explored_by_loom": total, "loom_scenarios": len(scs),
        "forced_orders_replayed_on_binary": nforced,
        "note": "states/transitions = complete schedules (executions) explored by loom; loom does not expose a "
                "state count",
        "exhaustive": True,
    }
    return report.finish(PROP, tier, "model_checking", cov, viols, ASSUMPTIONS, t0, runner.seed())
