"""C14 - one header per file section (right file, right event) and one per hunk.

E1 search over sequences of file sections built from the product event x path shape x
with/without hunks, for git and plain-diff sources; per-step oracle on rows in the reserved
file-header / hunk-header styles:
  * exactly one file header per section, after everything of the previous section and before
    the section's first hunk row; its text, as a whitespace-normalised token sequence, is
    [label] old [arrow new] [(mode ...)] [(binary file)] built here from the section description
    and the *configured* labels / arrow;
  * one hunk header per `@@` line, carrying git's code fragment verbatim.
"""
import itertools

import explore
import obs
import producers
import term
from explore import Problem, ViolationError
from lattice import Dim, base_opts, build_args, deviations

PROP = "C14"

# path shapes: (name used in headers a/.. b/.., how git writes it on ---/+++ lines)
SHAPES = {
    "plain": "a.txt",
    "space": "dir/b c.txt",
    "nonascii": "é.rs",
    "quoted": '"q\\303\\251.txt"',
    "quoted-space": '"q \\303\\251.txt"',
    # a directory literally called like one of git's one-letter prefixes
    "prefixdir": "b/util.rs",
    "prefixdir2": "w/a/conf.toml",
    # ... with a blank in the name (under --no-prefix the `diff --git x x` line then has three blanks)
    "prefixdir-space": "a/my notes.txt",
}
LABELS = {"modified": "MOD", "added": "ADD:", "removed": "DEL:", "renamed": "REN:", "copied": "CPY:"}
DEFAULT_LABELS = {"modified": "", "added": "added:", "removed": "removed:", "renamed": "renamed:",
                  "copied": "copied:"}
EVENTS = ["modified", "added", "deleted", "renamed", "renamed_changed", "copied", "mode",
          "mode_changed", "binary", "empty", "renamed_binary", "conflict_at_top", "combined_binary",
          "mode_binary", "combined_mode", "two_names_mode", "submodule", "quotes_subproject"]


def enc(s):
    return s.encode("utf-8")


def make_section(event, shape, n, prefixes=("a/", "b/"), src="git", frag=""):
    """-> (lines, spec) where spec = dict(old, new, label_key, addenda, hunks=[frag...])"""
    base = SHAPES[shape]
    quoted = base.startswith('"')
    inner = base[1:-1] if quoted else base

    def nm(prefix, suffix):
        # second name for renames: insert suffix before the extension
        stem, dot, ext = inner.rpartition(".")
        return "%s%s%s%s" % (stem, suffix, dot, ext)

    old = nm("", "%d" % n)
    new = nm("", "%dR" % n) if event in ("renamed", "renamed_changed", "copied") else old

    def withq(p, name):
        return '"%s%s"' % (p, name) if quoted else p + name

    def marker(p, name):
        # git appends a tab to ---/+++ names that contain a space
        s = withq(p, name)
        # (also when the name is quoted: `--- "a/\\303\\244 b"<TAB>`, checked against git 2.39)
        return s + ("\t" if " " in name else "")
    pa, pb = prefixes
    hh = "@@ -1,2 +1,2 @@" + ((" " + frag) if frag else "")
    body = [" a", "-b", "+c"]
    lines = []
    spec = dict(old=old, new=new, label_key="modified", addenda=[], hunks=[], event=event)
    if src == "diffu":
        lines = ["diff -ru %s%s %s%s" % (pa, old, pb, old), "--- %s%s\t2020-01-01 00:00:00.000000000 +0000" % (pa, old),
                 "+++ %s%s\t2020-01-02 00:00:00.000000000 +0000" % (pb, old), hh] + body
        spec.update(old=pa + old, new=pb + old, hunks=[frag])
        return [enc(l) for l in lines], spec
    d = "diff --git %s %s" % (withq(pa, old), withq(pb, new))
    if event == "modified":
        lines = [d, "index 1111111..2222222 100644", "--- " + marker(pa, old), "+++ " + marker(pb, new), hh] + body
        spec["hunks"] = [frag]
    elif event == "added":
        lines = [d, "new file mode 100644", "index 0000000..2222222", "--- /dev/null",
                 "+++ " + marker(pb, new), "@@ -0,0 +1 @@", "+c"]
        spec.update(label_key="added", hunks=[""])
    elif event == "deleted":
        lines = [d, "deleted file mode 100644", "index 1111111..0000000", "--- " + marker(pa, old),
                 "+++ /dev/null", "@@ -1 +0,0 @@", "-b"]
        spec.update(label_key="removed", hunks=[""])
    elif event == "renamed":
        lines = [d, "similarity index 100%", "rename from " + (('"%s"' % old) if quoted else old),
                 "rename to " + (('"%s"' % new) if quoted else new)]
        spec.update(label_key="renamed")
    elif event == "renamed_changed":
        lines = [d, "similarity index 90%", "rename from " + (('"%s"' % old) if quoted else old),
                 "rename to " + (('"%s"' % new) if quoted else new), "index 1111111..2222222 100644",
                 "--- " + marker(pa, old), "+++ " + marker(pb, new), hh] + body
        spec.update(label_key="renamed", hunks=[frag])
    elif event == "copied":
        lines = [d, "similarity index 100%", "copy from " + (('"%s"' % old) if quoted else old),
                 "copy to " + (('"%s"' % new) if quoted else new)]
        spec.update(label_key="copied")
    elif event == "mode":
        lines = [d, "old mode 100644", "new mode 100755"]
        spec.update(addenda=["mode"])
    elif event == "mode_changed":
        lines = [d, "old mode 100755", "new mode 100644", "index 1111111..2222222",
                 "--- " + marker(pa, old), "+++ " + marker(pb, new), hh] + body
        spec.update(addenda=["mode"], hunks=[frag])
    elif event == "binary":
        lines = [d, "index 1111111..2222222 100644",
                 "Binary files %s and %s differ" % (withq(pa, old), withq(pb, new))]
        spec.update(addenda=["binary"])
    elif event == "empty":
        lines = [d, "new file mode 100644", "index 0000000..e69de29"]
        spec.update(label_key="added")
    elif event == "conflict_at_top":
        # unresolved merge (combined diff) whose first hunk starts with the conflict marker: a conflict at line 1
        # of the file (every add/add conflict), or `git diff -U0`
        hh3 = "@@@ -1,3 -1,3 +1,7 @@@" + ((" " + frag) if frag else "")
        lines = ["diff --cc %s" % withq("", old), "index 1111111,2222222..0000000", "--- " + marker(pa, old),
                 "+++ " + marker(pb, new), hh3, "++<<<<<<< HEAD", " +ours", "++=======", "+ theirs", "++>>>>>>> branch",
                 "  z"]
        spec["hunks"] = [frag]
    elif event == "combined_binary":
        # a binary file in a merge commit
        lines = ["diff --cc %s" % withq("", old), "index 1111111,2222222..3333333", "Binary files differ"]
        spec.update(addenda=["binary"])
    elif event == "mode_binary":
        # a binary file whose content and mode changed
        lines = [d, "old mode 100644", "new mode 100755", "index 1111111..2222222",
                 "Binary files %s and %s differ" % (withq(pa, old), withq(pb, new))]
        spec.update(addenda=["mode", "binary"])
    elif event == "combined_mode":
        # merge commit: the mode of the result differs from the parents' (combined diff format: `mode <m1>,<m2>..<m>`)
        hh3 = "@@@ -1,2 -1,2 +1,3 @@@" + ((" " + frag) if frag else "")
        lines = ["diff --cc %s" % withq("", old), "index 1111111,2222222..3333333", "mode 100644,100644..100755",
                 "--- " + marker(pa, old), "+++ " + marker(pb, new), hh3, "  a", "++c"]
        spec.update(addenda=["mode"], hunks=[frag])
    elif event == "two_names_mode":
        # `git diff --no-index x y` (also `delta x y`): same content, different mode - the two names are on the
        # `diff` line only
        new = nm("", "%dR" % n)
        d = "diff --git %s %s" % (withq(pa, old), withq(pb, new))
        lines = [d, "old mode 100644", "new mode 100755"]
        spec.update(new=new, addenda=["mode"])
    elif event == "renamed_binary":
        new = nm("", "%dR" % n)
        d = "diff --git %s %s" % (withq(pa, old), withq(pb, new))
        lines = [d, "similarity index 90%", "rename from " + (('"%s"' % old) if quoted else old),
                 "rename to " + (('"%s"' % new) if quoted else new), "index 1111111..2222222 100644",
                 "Binary files %s and %s differ" % (withq(pa, old), withq(pb, new))]
        spec.update(label_key="renamed", new=new, addenda=[], must_mention="Binary")
    elif event == "submodule":
        # a submodule moved to another commit (git diff without --submodule): delta shows the two short hashes
        # instead of a hunk; no hunk header is due for it
        lines = [d, "index 1111111..2222222 160000", "--- " + marker(pa, old), "+++ " + marker(pb, new),
                 "@@ -1 +1 @@", "-Subproject commit " + "1" * 40, "+Subproject commit " + "2" * 40]
        spec["submodule"] = True
    elif event == "quotes_subproject":
        # an ordinary file whose hunk starts with lines that read like a submodule's (a test fixture, a note):
        # they are lines of this file, and the hunk gets its header like any other - whatever section preceded
        lines = [d, "index 1111111..2222222 100644", "--- " + marker(pa, old), "+++ " + marker(pb, new), hh,
                 "-Subproject commit " + "3" * 40, "+Subproject commit " + "4" * 40, " a"]
        spec["hunks"] = [frag]
    else:
        raise ValueError(event)
    return [enc(l) for l in lines], spec


def norm(s):
    return " ".join(s.split())


def header_ok(text, spec, labels, arrow):
    """is `text` (visible text of a file header row) a faithful header for the section?"""
    toks = norm(text)
    label = labels[spec["label_key"]]
    old, new = spec["old"], spec["new"]
    cands = []
    for o, n_ in ((old, new), ('"%s"' % old, '"%s"' % new)):
        if spec["label_key"] in ("renamed", "copied") or (spec["event"] == "diffu"):
            core = "%s %s %s" % (o, arrow.strip(), n_)
        elif o != n_:
            core = "%s %s %s" % (o, arrow.strip(), n_)
        else:
            core = o
        cands.append(norm((label + " " if label else "") + core))
    rest = None
    for c in cands:
        if toks == c:
            rest = ""
            break
        if toks.startswith(c + " "):
            rest = toks[len(c) + 1:]
            break
    if rest is None:
        return False, "path/label part differs (expected %r)" % cands[0]
    for a in spec["addenda"]:
        if a == "mode":
            if "mode" not in rest or not rest.startswith("("):
                return False, "mode change not reported"
        if a == "binary":
            if "(binary file)" not in rest:
                return False, "binary file not reported"
    if not spec["addenda"] and rest:
        return False, "unexpected addendum %r" % rest
    return True, ""


class Headers(Problem):
    max_depth = 300

    def __init__(self, ocfg, menu, max_sections, src="git", same_names=False):
        self.same_names = same_names
        self.ocfg = ocfg
        self.menu = menu  # list of (event, shape, prefixes, frag)
        self.max_sections = max_sections
        self.src = src
        self.cache = {}

    def sec(self, mi, n):
        key = (mi, n)
        if key not in self.cache:
            ev, shape, prefixes, frag = self.menu[mi]
            self.cache[key] = make_section(ev, shape, 0 if self.same_names else n, prefixes, self.src, frag)
        return self.cache[key]

    # producer state: (n sections started, menu index or None, line index)
    # model: (pending file header: section index n or None, headers seen for current section,
    #         pending hunk header fragment or None, hunk rows seen in section)
    def initial(self):
        return ((0, None, 0), (None, 0, None, (0, 0), None))

    def _choices(self, n):
        if n >= self.max_sections:
            return []
        return [(self.sec(mi, n)[0][0], (n, mi, 1), "first") for mi in range(len(self.menu))]

    def successors(self, ps):
        n, mi, i = ps
        if mi is None:
            return self._choices(0)
        if mi == "C":
            # the next commit's block (`git log -p`), directly after the last file of the previous commit
            if i < len(producers.COMMIT_BLOCK):
                return [(producers.COMMIT_BLOCK[i], (n, "C", i + 1), "commit")]
            return self._choices(n + 1)
        lines, spec = self.sec(mi, n)
        if i < len(lines):
            return [(lines[i], (n, mi, i + 1), "line")]
        out = self._choices(n + 1)
        if out and self.src == "git":
            out.append((producers.COMMIT_BLOCK[0], (n, "C", 1), "commit"))
        return out

    def can_end(self, ps):
        n, mi, i = ps
        return mi is None or mi == "C" or i >= len(self.sec(mi, n)[0])

    def _rows(self, model, out, n, spec, own_hunk_line):
        pend_file, nfile, pend_hunk, prev, mention = model
        infos = obs.observe(out)
        if mention and any(mention in info.row.text for info in infos):
            mention = None
        i = 0
        hh_omitted = self.ocfg.get("hunk_omit")
        while i < len(infos):
            info = infos[i]
            k = info.kind
            if k in ("file", "hunk"):
                info.text = "".join(t for t, c in info.body_runs
                                    if c is None or not c.endswith("_deco"))
            if k == "file":
                if pend_file is None:
                    raise ViolationError(
                        "extra-file-header", "a file header row %r appears but every section "
                        "so far already has its header (duplicate or misplaced)" % info.text,
                        observed=info.text)
                pn, pspec = pend_file
                ok, why = header_ok(info.text, pspec, self.ocfg["labels"], self.ocfg["arrow"])
                if not ok:
                    raise ViolationError("wrong-file-header:" + pspec["event"],
                                         "file header %r for section %s/%s->%s: %s"
                                         % (info.text, pspec["event"], pspec["old"], pspec["new"], why),
                                         expected=[pspec["old"], pspec["new"]], observed=info.text)
                pend_file = None
            elif k == "hunk":
                if pend_hunk is None:
                    raise ViolationError("extra-hunk-header", "a hunk header row %r without a "
                                         "pending @@ line" % info.text, observed=info.text)
                frag = pend_hunk
                if frag and frag not in info.text and not self.ocfg.get("no_fragment"):
                    raise ViolationError("fragment-altered", "hunk header %r does not carry the "
                                         "code fragment %r" % (info.text, frag),
                                         expected=frag, observed=info.text)
                pend_hunk = None
            elif k in ("minus", "plus", "zero"):
                if nfile > 0:
                    nfile -= 1      # a held-back line of an earlier section
                    i += 1
                    continue
                prev = (prev[0], prev[1] + 1)
                if pend_file is not None and pend_file[0] == n and not self.ocfg.get("file_omit"):
                    raise ViolationError("hunk-row-before-file-header", "hunk row %r of section "
                                         "%d is written before the section's file header"
                                         % (info.text, n), observed=info.text)
                if pend_hunk is not None and own_hunk_line and not hh_omitted and \
                        (pend_hunk or self.ocfg.get("hunk_ln")):
                    raise ViolationError("hunk-row-before-hunk-header", "hunk row %r written "
                                         "before its hunk header" % info.text, observed=info.text)
            i += 1
        return (pend_file, nfile, pend_hunk, prev, mention)

    def _hunk_header_due(self, m2, where):
        # every `@@` line of a file's section has produced its hunk header by the time the section is over
        # (a header that is still pending then was dropped: its hunk was shown without it)
        pend_hunk = m2[2]
        if pend_hunk is not None and not self.ocfg.get("hunk_omit") and \
                ((pend_hunk and not self.ocfg.get("no_fragment")) or self.ocfg.get("hunk_ln")):
            raise ViolationError("missing-hunk-header", "the hunk introduced by `@@ ... @@ %s` got no hunk header %s"
                                 % (pend_hunk, where), expected=pend_hunk)

    def step(self, model, line, kind, out, ps):
        n, mi, i = ps
        if mi == "C":
            # rows written while the commit block passes belong to the section before it (its pending header)
            return self._rows(model, out, n, None, False)
        lines, spec = self.sec(mi, n)
        pend_file, nfile, pend_hunk, prev, mention = model
        if kind == "first":
            # a new section starts: the previous section's header must be out by the end of
            # this step at the latest (delta writes lazily pending headers now)
            model = self._rows(model, out, n, spec, False) if False else model
            pend_file_prev = pend_file
            # rows written in this step belong to the previous section
            nfile = nfile + max(0, prev[0] - prev[1])
            m2 = self._rows((pend_file, nfile, pend_hunk, (0, 0), mention), out, n - 1, None, False)
            if m2[4]:
                raise ViolationError("binary-not-reported", "the previous section (a renamed and modified binary file) "
                                     "is shown without any mention that the file is binary", expected=m2[4])
            if m2[0] is not None and not self.ocfg.get("file_omit"):
                raise ViolationError("missing-file-header:" + m2[0][1]["event"],
                                     "section %d (%s) got no file header before the next section "
                                     "started" % (m2[0][0], m2[0][1]["event"]),
                                     expected=m2[0][1]["old"])
            self._hunk_header_due(m2, "before the next section started")
            return ((n, spec), m2[1], None, (0, 0), spec.get("must_mention"))
        is_hh = line.startswith(b"@@")
        hunk_line = (not is_hh) and spec["hunks"] and line[:1] in (b" ", b"-", b"+") and \
            not line.startswith((b"--- ", b"+++ "))
        if is_hh and spec.get("submodule"):
            return self._rows(model, out, n, spec, False)
        if is_hh:
            frag = line.split(b"@@", 2)[2].lstrip(b"@").strip().decode("utf-8") if line.count(b"@@") >= 2 else ""
            model = (pend_file, nfile, frag, prev, mention)
            return self._rows(model, out, n, spec, False)
        if hunk_line:
            model = (pend_file, nfile, pend_hunk, (prev[0] + 1, prev[1]), mention)
        return self._rows(model, out, n, spec, hunk_line)

    def eof(self, model, out, ps):
        n, mi, i = ps
        if mi is None:
            return
        spec = None if mi == "C" else self.sec(mi, n)[1]
        m2 = self._rows(model, out, n, spec, False)
        self._hunk_header_due(m2, "by end of input")
        if m2[4]:
            raise ViolationError("binary-not-reported", "the last section (a renamed and modified binary file) is shown "
                                 "without any mention that the file is binary", expected=m2[4])
        if m2[0] is not None and not self.ocfg.get("file_omit"):
            raise ViolationError("missing-file-header:" + m2[0][1]["event"],
                                 "section %d (%s) got no file header by end of input"
                                 % (m2[0][0], m2[0][1]["event"]), expected=m2[0][1]["old"])

    def model_key(self, model):
        pend_file, nfile, pend_hunk, prev, mention = model
        return (pend_file[0] if pend_file else None, pend_hunk, nfile, prev[0] - prev[1], mention)


LABEL_OPTS = {"file-modified-label": LABELS["modified"], "file-added-label": LABELS["added"],
              "file-removed-label": LABELS["removed"], "file-renamed-label": LABELS["renamed"],
              "file-copied-label": LABELS["copied"], "right-arrow": ">>"}

DIMS = [
    Dim("labels", [("custom", {}), ("default", {"_default_labels": True})]),
    Dim("file-style", [("reserved", {}), ("box", {"file-decoration-style": "117 box"}),
                       ("ul-ol", {"file-decoration-style": "117 ul ol"}),
                       ("nodeco", {"file-decoration-style": "none"})]),
    Dim("navigate", [("off", {}), ("on", {"navigate": True, "_navigate": True})]),
    Dim("hyperlinks", [("off", {}), ("on", {"hyperlinks": True})]),
    Dim("line-numbers", [("off", {}), ("on", {"line-numbers": True})]),
    Dim("hunk-header", [("ln", {}), ("file-ln", {"hunk-header-style": "file line-number 110"}),
                        ("plain", {"hunk-header-style": "110", "_hunk_ln": False}),
                        ("omit", {"hunk-header-style": "omit", "_hunk_omit": True}),
                        ("omit-cf", {"hunk-header-style": "omit-code-fragment line-number 110",
                                     "_no_fragment": True})]),
    Dim("relative", [("off", {}), ("on", {"relative-paths": True})]),
    Dim("view", [("unified", {}), ("color-moved", {"max-line-distance": "1"})]),
    Dim("line-buffer-size", [("32", {}), ("0", {"line-buffer-size": "0"})]),
    # how the commit line between two commits' files is treated must not matter for the files' headers
    Dim("commit-style", [("reserved", {}), ("omit", {"commit-style": "omit"}),
                         ("raw", {"commit-style": "raw", "commit-decoration-style": "none"})]),
]


def run_task(task):
    label, ov, menu, nsec, src, deadline = task
    opts = dict(LABEL_OPTS)
    ocfg = {"labels": dict(LABELS), "arrow": ">>", "hunk_ln": True}
    for k, v in ov.items():
        if k.startswith("_"):
            ocfg[k[1:]] = v
        else:
            opts[k] = v
    if ocfg.get("default_labels"):
        for k in LABEL_OPTS:
            opts.pop(k)
        ocfg["labels"] = dict(DEFAULT_LABELS)
        ocfg["arrow"] = "⟶"
    if ocfg.get("navigate") and ocfg.get("default_labels"):
        ocfg["labels"]["modified"] = "Δ"
    args = build_args(base_opts(opts))
    drv = explore.get_driver()
    try:
        cid = drv.mkconfig(args)
    except explore.Rejected as e:
        return {"label": label, "spec": ("headers",), "rejected": str(e)}
    prob = Headers(ocfg, menu, nsec, src.replace("+same", ""), same_names=src.endswith("+same"))
    stats, viols = explore.bfs(prob, drv, cid, deadline=deadline)
    drv.drop(cid)
    for v in viols:
        v.args = args
        v.config_label = label
    d = stats.merge_dict()
    d.update(label=label, spec=("headers", src, "sections=%d" % nsec), violations=viols, args=args,
             caller=None)
    return d


def run_raw_filestyle(task):
    """file-style raw (git's own header lines are kept, or delta's header is written unpainted): the section still
    says that the file is binary / that its mode changed. Rows cannot be classified by style there, so the oracle
    is on the visible text of the whole output of one section."""
    _ = task
    drv = explore.get_driver()
    viols = []
    n = 0
    for label, ov in (("raw,nodeco", {"file-style": "raw", "file-decoration-style": "none"}),
                      ("raw,ul", {"file-style": "raw", "file-decoration-style": "117 ul"}),
                      ("raw,box", {"file-style": "raw", "file-decoration-style": "117 box"})):
        args = build_args(base_opts(dict(LABEL_OPTS, **ov)))
        cid = drv.mkconfig(args)
        for ev, words in (("binary", ["inary"]), ("mode", ["mode"]), ("mode_binary", ["inary", "mode"]),
                          ("renamed_binary", ["inary"]), ("combined_binary", ["inary"]), ("mode_changed", ["mode"])):
            for shape in ("plain", "space"):
                lines, spec = make_section(ev, shape, 0)
                data = b"".join(l + b"\n" for l in lines)
                r = drv.render1(cid, data)
                n += 1
                if r.panic:
                    continue
                text = term.strip(r.out.decode("utf-8", "replace"))
                missing = [w for w in words if w not in text]
                if missing and not any(v.klass == "raw-file-style:" + ev for v in viols):
                    v = explore.Violation("raw-file-style:" + ev, "[%s] section %s: the output never says %s: %r"
                                          % (label, ev, " / ".join("'%s'" % w for w in missing), text[:200]), lines)
                    v.args = args
                    v.config_label = label
                    viols.append(v)
        drv.drop(cid)
    return {"n": n, "violations": viols}


def run_fragment_maxlen(task):
    """the code fragment of a hunk header is git's, unchanged, also when the `@@` line is longer than
    --max-line-length - whether or not git coloured the line (git diff --color=always | delta)."""
    _ = task
    drv = explore.get_driver()
    viols = []
    n = 0
    frags = ["fn a_rather_long_function_name(first_argument: usize, second: &str) -> Outcome {",
             "impl<'a> Längere Überschrift für Abschnitt { // 漢字 " + "x" * 30]
    for hstyle in ("line-number 110", "110", "file line-number 110", "line-number syntax 110"):
        for maxlen in ("10", "40", "70"):
            opts = dict(LABEL_OPTS, **{"hunk-header-style": hstyle, "max-line-length": maxlen, "width": "200"})
            args = build_args(base_opts(opts))
            cid = drv.mkconfig(args)
            for frag in frags:
                for coloured in (False, True):
                    for three in (False, True):
                        B, C, R, G, M = ("\x1b[1m", "\x1b[36m", "\x1b[31m", "\x1b[32m", "\x1b[m") if coloured else ("",) * 5
                        hh = "@@@ -10,3 -10,3 +10,3 @@@" if three else "@@ -10,3 +10,3 @@"
                        body = ["  a", "- b", " +c"] if three else [" a", "-b", "+c"]
                        lines = [B + ("diff --cc a.rs" if three else "diff --git a/a.rs b/a.rs") + M,
                                 B + "index 1111111..2222222 100644" + M, B + "--- a/a.rs" + M, B + "+++ b/a.rs" + M,
                                 C + hh + M + " " + frag, body[0], R + body[1] + M, G + body[2] + M]
                        data = b"".join(enc(l) + b"\n" for l in lines)
                        r = drv.render1(cid, data)
                        n += 1
                        if r.panic:
                            continue
                        rows = [info for info in obs.observe(r.out) if info.kind == "hunk"]
                        texts = ["".join(t for t, c in info.body_runs if c is None or not c.endswith("_deco"))
                                 for info in rows]
                        carrying = [t for t in texts if frag in t]
                        klass = "fragment-cut-at-max-line-length:%s" % ("coloured" if coloured else "plain")
                        if len(carrying) != 1 and not any(v.klass == klass for v in viols):
                            v = explore.Violation(klass, "[hunk-header-style=%s, max-line-length=%s, %s input] %d hunk "
                                                  "header rows carry the code fragment %r unchanged (want 1): %r"
                                                  % (hstyle, maxlen, "coloured" if coloured else "plain",
                                                     len(carrying), frag, texts), lines)
                            v.args = args
                            v.config_label = "fragment-maxlen"
                            viols.append(v)
            drv.drop(cid)
    return {"n": n, "violations": viols}


def menus(tier):
    full = []
    for ev in EVENTS:
        for shape in SHAPES:
            full.append((ev, shape, ("a/", "b/"), "fn frag(x)" if shape == "plain" else ""))
    mnemonic = [(ev, "plain", p, "") for ev in ("modified", "renamed_changed", "mode")
                for p in (("i/", "w/"), ("c/", "w/"), ("o/", "w/"), ("c/", "i/"), ("1/", "2/"))] + \
        [("empty", "plain", ("1/", "2/"), "")] + \
        [(ev, shape, ("", ""), "") for ev in ("modified", "mode", "added") for shape in ("prefixdir", "plain", "prefixdir-space", "space")]   # --no-prefix
    core = [(ev, "plain", ("a/", "b/"), "fn frag(x)") for ev in EVENTS]
    return full, mnemonic, core


ASSUMPTIONS = [
    "events x path shapes x neighbours as listed; labels and arrow are set to known strings (and a "
    "dimension with delta's documented defaults)",
    "header text compared as a whitespace-normalised token sequence; decoration and spacing are not "
    "compared; for a quoted path the name is accepted with or without the quotes git added",
    "a mode change must be reported as a parenthesised addendum containing 'mode'; a binary file "
    "as '(binary file)'",
    "input may end only after a complete section",
]


def main(tier):
    import runner
    d = 1 if tier == "quick" else 2
    configs = deviations(DIMS, d)
    full, mnemonic, core = menus(tier)
    tasks = []
    for label, ov, k in configs:
        if k == 0:
            tasks.append((label, ov, full, 2, "git"))
            tasks.append((label + "/mnemonic", ov, mnemonic, 2, "git"))
            tasks.append((label + "/same-file", ov, core, 2, "git+same"))
            tasks.append((label + "/diffu", ov, [("modified", s, ("a/", "b/"), "") for s in
                                                 ("plain", "space", "nonascii")], 2, "diffu"))
            if tier == "thorough":
                tasks.append((label + "/3", ov, core, 3, "git"))
        else:
            tasks.append((label, ov, core if tier == "quick" or k == 2 else full, 2, "git"))
            if k == 1:
                tasks.append((label + "/same-file", ov, core, 2, "git+same"))
    cap = 45 if tier == "quick" else 900
    rres = explore.pmap(run_raw_filestyle, [None])
    fres = explore.pmap(run_fragment_maxlen, [None])
    return runner.run_e1(PROP, tier, tasks, run_task, ASSUMPTIONS, cap,
                         {"config_deviation_bound": d, "configurations": len(configs),
                          "raw_file_style_renders": sum(r["n"] for r in rres),
                          "fragment_vs_max_line_length_renders": sum(r["n"] for r in fres)},
                         extra_violations=[v for r in rres + fres for v in r["violations"]])
