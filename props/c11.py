"""C11 - output is streamed: bounded lag behind the input, never revised.

E1 search (the C01 producers, unified and side-by-side, line-buffer-size 32/0/1/2) with a counting
reference model evaluated after every input line, using the H2 offsets (bytes handed to the writer
before the next line is requested):
 (a) lines shown so far vs lines consumed: everything except the currently open run of consecutive
     removed/added lines has been written; at most line-buffer-size+1 lines are held back. The mechanism
     bounds each of the two buffers, not their sum: a breach of the per-buffer bound is class
     lag-exceeds-buffer, a run within it whose total is above the stated bound is class
     open-run-exceeds-buffer-in-total (a recorded finding, see known_findings.json); at a hunk header
     nothing of the previous hunk may be pending; the lines of an open merge-conflict region are one
     open run of added lines (StreamC, class conflict-region-held, a recorded finding);
 (b) the bytes written before line k+1 was requested are a prefix of the output of lines 1..k run
     alone (checked against the parent render) - output is never revised;
 (c) what has been written is empty or ends in a newline (else Rust's line-buffered stdout would
     hold it back and the in-process observation would overstate what a user sees).
E4 conformance: the real binary reads from a pipe held open after k lines; when /proc/<pid>/syscall
shows it blocked in read(0), the bytes available on its stdout must equal the in-process E_k.
"""
import os
import select
import subprocess
import time

import build
import explore
import obs
import producers
import term
from c01 import CONTENTS_QUICK, CONTENTS_FULL
from driver import base_env
from explore import Problem, ViolationError, Violation
from lattice import base_opts, build_args

PROP = "C11"


def count_rows(out, sbs):
    """-> (minus lines shown, plus lines shown, zero lines shown, other non-blank rows)"""
    m = p = z = o = 0
    for row in term.decode(out):
        if sbs:
            r = obs.observe_sbs_row(row)
            if r is None:
                continue
            # a line starts on the row carrying its number; continuation rows carry none
            if r.left.numclass == "ln_minus" and r.left.number != "":
                m += 1
            if r.right.numclass == "ln_plus" and r.right.number != "":
                p += 1
            if r.left.numclass == "ln_zero" and r.left.number != "":
                z += 1
        else:
            info = obs.observe_row(row)
            if info.kind == "minus":
                m += 1
            elif info.kind == "plus":
                p += 1
            elif info.kind == "zero":
                z += 1
            elif info.kind == "mixed":
                o += 1
    return m, p, z, o


class Streaming(Problem):
    """wraps a C01 producer (SearchA / SearchB); model = (consumed m,p,z ; shown m,p,z ; run m,p)"""
    max_depth = 200

    def __init__(self, inner, lbs, sbs, np_=1):
        self.inner = inner
        self.lbs = lbs
        self.sbs = sbs
        self.np = np_

    def initial(self):
        ps, _ = self.inner.initial()
        return (ps, (0, 0, 0, 0, 0, 0, 0, 0))

    def successors(self, ps):
        return self.inner.successors(ps)

    def line_kind(self, line, kind, ps):
        raise NotImplementedError

    def step(self, model, line, kind, out, ps):
        cm, cp, cz, sm, sp, sz, rm, rp = model
        k = self.line_kind(line, kind, ps)
        if k == "minus":
            cm += 1
            if rp > 0:
                # a removed line after added lines starts a new run
                rm, rp = 0, 0
            rm += 1
        elif k == "plus":
            cp += 1
            rp += 1
        else:
            if k == "zero":
                cz += 1
            rm = rp = 0
        if out and not out.endswith(b"\n"):
            raise ViolationError("partial-line", "bytes handed to the writer do not end in a "
                                 "newline: %r" % out[-40:], observed=out[-80:])
        m, p, z, o = count_rows(out, self.sbs)
        sm += m
        sp += p
        sz += z
        if sm > cm or sp > cp or sz > cz:
            raise ViolationError("shown-more-than-read", "more lines shown (%d-,%d+,%d ) than "
                                 "read (%d-,%d+,%d )" % (sm, sp, sz, cm, cp, cz))
        pend_m, pend_p, pend_z = cm - sm, cp - sp, cz - sz
        if k not in ("minus", "plus", "zero") and line.startswith(b"@@") and (pend_m or pend_p or pend_z):
            # a hunk header: the input ends inside the hunk it opens, and the run of removed/added lines which ended
            # the previous hunk is not the open run any more
            raise ViolationError("closed-run-held-at-hunk-header", "held back at the next hunk header: %d removed / %d added / "
                                 "%d unchanged lines of the previous hunk" % (pend_m, pend_p, pend_z),
                                 observed=[pend_m, pend_p, pend_z])
        if k not in ("minus", "plus", "zero") and line.startswith(b"\\ ") and (pend_m or pend_p or pend_z):
            # `\ No newline at end of file` is a line of the hunk: the input ends inside it, and the run before the
            # marker is closed
            raise ViolationError("closed-run-held-at-no-newline-marker", "held back after the `\\ No newline` line: %d removed / "
                                 "%d added / %d unchanged lines" % (pend_m, pend_p, pend_z), observed=[pend_m, pend_p, pend_z])
        if k not in ("minus", "plus", "zero"):
            # the statement speaks about input that ends inside a hunk, i.e. whose last line is a
            # hunk line; after a header line delta may still hold the just-closed run (painted,
            # emitted with the next line) - bounded by the same buffer size and checked again at
            # the next hunk line and at end of input
            if pend_m > self.lbs + 1 or pend_p > self.lbs + 1:
                raise ViolationError("lag-exceeds-buffer", "held back: %d removed / %d added "
                                     "lines with line-buffer-size %d" % (pend_m, pend_p, self.lbs))
            return (cm, cp, cz, sm, sp, sz, pend_m, pend_p)
        if pend_z:
            raise ViolationError("unchanged-line-held-back", "%d unchanged line(s) not written "
                                 "when the next line is requested" % pend_z, observed=pend_z)
        if pend_m > rm or pend_p > rp:
            raise ViolationError(
                "held-back-outside-open-run", "held back: %d removed, %d added lines, but the "
                "open run of consecutive removed/added lines has only %d/%d"
                % (pend_m, pend_p, rm, rp), expected=[rm, rp], observed=[pend_m, pend_p])
        if pend_m > self.lbs + 1 or pend_p > self.lbs + 1:
            raise ViolationError(
                "lag-exceeds-buffer", "held back: %d removed / %d added lines with "
                "line-buffer-size %d" % (pend_m, pend_p, self.lbs),
                expected=self.lbs + 1, observed=[pend_m, pend_p])
        if pend_m + pend_p > self.lbs + 1:
            # (each buffer is within the size, the open run as a whole is not)
            raise ViolationError(
                "open-run-exceeds-buffer-in-total", "held back: %d removed + %d added lines of one open run with "
                "line-buffer-size %d" % (pend_m, pend_p, self.lbs),
                expected=self.lbs + 1, observed=[pend_m, pend_p])
        return (cm, cp, cz, sm, sp, sz, rm, rp)

    def eof(self, model, out, ps):
        cm, cp, cz, sm, sp, sz, rm, rp = model
        m, p, z, o = count_rows(out, self.sbs)
        if (sm + m, sp + p, sz + z) != (cm, cp, cz):
            raise ViolationError("flush-incomplete", "after end of input %d-/%d+/%d lines shown "
                                 "of %d/%d/%d read" % (sm + m, sp + p, sz + z, cm, cp, cz))

    def model_key(self, model):
        cm, cp, cz, sm, sp, sz, rm, rp = model
        # futures depend only on what is pending and on the open run
        return (cm - sm, cp - sp, cz - sz, rm, rp)


class StreamA(Streaming):
    def line_kind(self, line, kind, ps):
        if kind.startswith("hunk-") and kind != "hunk-header":
            k = kind[5:]
            return k if k in ("minus", "plus", "zero") else "other"
        return "other"


class StreamB(Streaming):
    def eof(self, model, out, ps):
        n, cur, i, sub = ps
        if cur is not None and cur[0].startswith("submodule"):
            return      # (`hash..` of a lone `-Subproject commit` line is painted like a removed line: not a hunk row)
        return Streaming.eof(self, model, out, ps)

    def line_kind(self, line, kind, ps):
        n, cur, i, sub = ps
        if cur is not None and not cur[0].startswith("submodule"):
            knd, body = cur
            lines, info = self.inner.sec(knd, n, body)
            nh = len(info["hunk_lines"])
            if info["has_hunk"] and i - 1 >= len(lines) - nh:
                k = producers.hunk_line_kind(line, 2 if knd == "combined" else 1)
                return k if k in ("minus", "plus", "zero") else "other"
        return "other"


class StreamC(Problem):
    """wraps C01's conflict producer: the lines between `++<<<<<<<` and `++>>>>>>>` are added lines of the combined
    diff - one open run - so at most line-buffer-size + 1 of them may be held back. model = (in region, region lines read,
    hunk rows shown since the region began)"""
    max_depth = 200

    def __init__(self, inner, lbs, sbs):
        self.inner = inner
        self.lbs = lbs
        self.sbs = sbs

    def initial(self):
        ps, _ = self.inner.initial()
        return (ps, (False, 0, 0))

    def successors(self, ps):
        return self.inner.successors(ps)

    def step(self, model, line, kind, out, ps):
        inr, read, shown = model
        if out and not out.endswith(b"\n"):
            raise ViolationError("partial-line", "bytes handed to the writer do not end in a newline: %r" % out[-40:],
                                 observed=out[-80:])
        if kind == "mc-begin":
            return (True, 0, 0)
        if kind in ("mc-end", "mc-abort") or not inr:
            return (False, 0, 0)
        if kind == "mc-line":
            read += 1
        m, p, z, o = count_rows(out, self.sbs)
        shown += m + p + z + o
        held = read - shown
        if held > self.lbs + 1:
            raise ViolationError("conflict-region-held", "%d lines of an open merge conflict region are held back with "
                                 "line-buffer-size %d (nothing of the region is written before its end marker)"
                                 % (held, self.lbs), expected=self.lbs + 1, observed=held)
        return (True, read, shown)

    def eof(self, model, out, ps):
        pass

    def model_key(self, model):
        return model


def run_task(task):
    import c01
    spec, label, ov, lbs, sbs, deadline = task
    opts = dict(ov)
    opts["line-buffer-size"] = str(lbs)
    if sbs:
        opts["side-by-side"] = True
        opts["width"] = "100"
    else:
        opts["line-numbers"] = ov.get("line-numbers", None)
    args = build_args(base_opts(opts))
    drv = explore.get_driver()
    cid = drv.mkconfig(args)
    ocfg = {"tabs": 8, "markers": False, "maxlen": 3000}
    if spec[0] == "A":
        _, variant, contents, L, hunks = spec
        inner = c01.SearchA(ocfg, contents, L, hunks, variant)
        prob = StreamC(inner, lbs, sbs) if variant == "conflict" else StreamA(inner, lbs, sbs)
    else:
        _, nsec, kinds, bodies, src = spec
        inner = c01.SearchB(ocfg, nsec, kinds, bodies, True, src)
        prob = StreamB(inner, lbs, sbs)
    stats, viols = explore.bfs(prob, drv, cid, deadline=deadline)
    drv.drop(cid)
    for v in viols:
        v.args = args
        v.config_label = label
    d = stats.merge_dict()
    d.update(label=label, spec=spec[:2] + ("lbs=%d" % lbs, "sbs" if sbs else "unified"),
             violations=viols, args=args, caller=None)
    return d


# ---------------------------------------------------------------------------------------------
# E4: the real binary on a held-open pipe

def blocked_in_read0(pid):
    try:
        with open("/proc/%d/syscall" % pid) as f:
            parts = f.read().split()
    except OSError:
        return False
    # x86_64: syscall 0 = read, first argument = fd
    if not (len(parts) >= 2 and parts[0] == "0" and parts[1] in ("0x0", "0")):
        return False
    # ... and really asleep in it: a process that has been handed data but has not been scheduled since (a busy
    # machine) is still "in read(0)", but runnable
    try:
        with open("/proc/%d/stat" % pid) as f:
            st = f.read()
        return st[st.rindex(")") + 2] == "S"
    except (OSError, ValueError, IndexError):
        return False


def pipe_unread(fd):
    """bytes written to the pipe that the reader has not taken yet"""
    import array
    import fcntl
    import termios
    buf = array.array("i", [0])
    try:
        fcntl.ioctl(fd, termios.FIONREAD, buf)
        return buf[0]
    except OSError:
        return 0


def binary_prefix_outputs(args, lines, timeout=30.0):
    """Feed lines one at a time; after each, wait until the binary blocks in read(0), then collect
    what is available on its stdout. Returns list of cumulative outputs E_1..E_n and the final
    output after EOF."""
    env = base_env()
    env["DELTA_VERIF_PARENT_ARGS"] = "verif-none"
    p = subprocess.Popen([build.BIN] + list(args), env=env, stdin=subprocess.PIPE,
                         stdout=subprocess.PIPE, stderr=subprocess.PIPE)
    os.set_blocking(p.stdout.fileno(), False)
    got = b""
    E = []

    def drain():
        nonlocal got
        while True:
            r, _, _ = select.select([p.stdout], [], [], 0)
            if not r:
                return
            try:
                chunk = os.read(p.stdout.fileno(), 1 << 16)
            except BlockingIOError:
                return
            if not chunk:
                return
            got += chunk

    def wait_quiescent():
        t_end = time.time() + timeout
        stable = 0
        while time.time() < t_end:
            if p.poll() is not None:
                return False
            if pipe_unread(p.stdin.fileno()) == 0 and blocked_in_read0(p.pid):
                stable += 1
                if stable >= 2:
                    return True
            else:
                stable = 0
            time.sleep(0.001)
        return False

    try:
        if not wait_quiescent():
            raise build.MachineryError("binary did not block in read(0) at start")
        for l in lines:
            p.stdin.write(l + b"\n")
            p.stdin.flush()
            if not wait_quiescent():
                raise build.MachineryError("binary did not reach quiescence after a line "
                                           "(status %s)" % p.poll())
            drain()
            E.append(got)
        p.stdin.close()
        p.wait(timeout=timeout)
        os.set_blocking(p.stdout.fileno(), True)
        got += p.stdout.read()
        return E, got, p.returncode
    finally:
        if p.poll() is None:
            p.kill()
            p.wait()
        p.stdout.close()
        p.stderr.close()


def conformance(cases):
    """cases: list of (args, lines). Compare the binary's visible prefix outputs with the
    in-process offsets. Returns (n prefix points checked, violations)."""
    from driver import Driver
    d = Driver()
    n = 0
    viols = []
    for args, lines in cases:
        cid = d.mkconfig(args)
        r = d.render1(cid, b"".join(l + b"\n" for l in lines), trace=True)
        d.drop(cid)
        offs = [o for o, _ in r.trace]
        E, final, status = binary_prefix_outputs(args, lines)
        if final != r.out:
            raise build.MachineryError("binary and driver disagree on the complete output")
        for k in range(len(lines)):
            n += 1
            want = r.out[:offs[k + 1]]
            if E[k] != want:
                v = Violation("binary-prefix-mismatch",
                              "after %d lines the binary (blocked in read) has written %d bytes, "
                              "the in-process trace says %d" % (k + 1, len(E[k]), len(want)),
                              lines[:k + 1], k + 1, want[-200:], E[k][-200:])
                v.args = args
                viols.append(v)
                break
    d.shutdown()
    return n, viols


ASSUMPTIONS = [
    "the C01 alphabets and bounds (hunk-line sequences, section sequences)",
    "side-by-side runs use width 100 and short lines so that every line occupies one row; the "
    "start of a line is recognised by its number in the gutter",
    "the hunk header (written when the first line of the hunk arrives) and lazily written file "
    "headers are not hunk lines and are not counted as held-back lines",
    "quiescence of the binary = blocked in read(0) according to /proc/<pid>/syscall, observed twice",
]


def main(tier):
    import report
    import runner
    t0 = time.time()
    build.ensure_built()
    tasks = []
    # (a submodule's `-Subproject commit`/`+Subproject commit` pair is shown as one `hash..hash` line, not as hunk lines:
    # the deleted / added / dirty submodule sections of C01 are not part of the streaming question)
    KB = producers.SECTION_KINDS + ["commit"]
    if tier == "quick":
        specA = ("A", "unified", CONTENTS_QUICK[:3], 4, 1)
        specA2 = ("A", "unified", [b"x", b""], 3, 2)
        specB = ("B", 2, KB, None, "git")
    else:
        specA = ("A", "unified", CONTENTS_QUICK, 5, 1)
        specA2 = ("A", "unified", CONTENTS_QUICK[:3], 4, 2)
        specB = ("B", 3, KB, ["ctx", "minus", "minusplus"], "git")
    for lbs in (32, 0, 1, 2):
        for sbs in (False, True):
            for spec in (specA, specA2, specB):
                tasks.append((spec, "lbs=%d,%s" % (lbs, "sbs" if sbs else "unified"), {}, lbs, sbs))
            tasks.append((("A", "diffu", CONTENTS_QUICK[:3], 3, 1),
                          "lbs=%d,%s,diffu" % (lbs, "sbs" if sbs else "unified"), {}, lbs, sbs))
            tasks.append((("A", "conflict", [b"x", b"y"], 2, 1),
                          "lbs=%d,%s,conflict" % (lbs, "sbs" if sbs else "unified"), {}, lbs, sbs))
        tasks.append((specA, "lbs=%d,unified,line-numbers" % lbs, {"line-numbers": True}, lbs, False))
        tasks.append((specA, "lbs=%d,unified,max-line-distance=1" % lbs, {"max-line-distance": "1"},
                      lbs, False))
    cap = 45 if tier == "quick" else 900
    deadline = t0 + cap
    results = explore.pmap(run_task, [t + (deadline,) for t in tasks])
    # E4 conformance on the real binary
    cases = []
    hist_sets = [
        [b"diff --git a/f.txt b/f.txt", b"--- a/f.txt", b"+++ b/f.txt", b"@@ -1,5 +1,5 @@", b" a",
         b"-b", b"-c", b"-d", b"+e", b"+f", b" g", b"+h"],
        producers.section("modified", 0, "minus")[0] + producers.section("mode", 1)[0]
        + producers.section("added", 2, "nonl")[0],
        producers.COMMIT_BLOCK + producers.section("rename_change", 0, "minusplus")[0]
        + producers.section("binary", 1)[0],
    ]
    for lbs in (32, 0, 1):
        for sbs in (False, True):
            o = {"line-buffer-size": str(lbs)}
            if sbs:
                o["side-by-side"] = True
                o["width"] = "100"
            for h in hist_sets:
                cases.append((build_args(base_opts(o)), h))
    if tier == "quick":
        cases = cases[runner.seed() % 2::2][:9] + cases[:3]
    nconf, cviols = conformance(cases)
    # merge
    states = transitions = renders = 0
    maxd = 0
    snaps = set()
    outs = set()
    caps = []
    samples = []
    viols = list(cviols)
    per = {}
    for r in results:
        states += r["states"]
        transitions += r["transitions"]
        renders += r["renders"]
        maxd = max(maxd, r["max_depth"])
        snaps |= r["snapshots"]
        outs |= r["step_outputs"]
        if r["cap_hit"]:
            caps.append("%s: %s" % (r["label"], r["cap_hit"]))
        if r["samples"] and len(samples) < 4:
            samples.append({"config": r["label"], "history": r["samples"][0]})
        key = "/".join(str(x) for x in r["spec"])
        ps = per.setdefault(key, {"states": 0, "transitions": 0})
        ps["states"] += r["states"]
        ps["transitions"] += r["transitions"]
        viols.extend(r["violations"])
    best = {}
    for v in viols:
        cur = best.get(v.klass)
        if cur is None or len(v.history or []) < len(cur.history or []):
            best[v.klass] = v
    viols = sorted(best.values(), key=lambda v: v.klass)
    cov = {
        "states": states, "transitions": transitions,
        "traces_validated_against_impl": renders + nconf,
        "samples": samples, "renders_of_real_code": renders,
        "binary_prefix_points_checked": nconf, "binary_histories": len(cases),
        "max_depth": maxd, "distinct_snapshots": len(snaps), "distinct_step_outputs": len(outs),
        "per_search": per, "line_buffer_sizes": [32, 0, 1, 2], "caps_hit": caps,
        "exhaustive": not caps,
    }
    return report.finish(PROP, tier, "model_checking", cov, viols, ASSUMPTIONS, t0, runner.seed())
