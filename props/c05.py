"""C05 - displayed line numbers are the true old/new file line numbers.

E2: all subhunk shapes (all words over {' ','-','+'} up to length n) x start positions x line
lengths (short / longer than a side-by-side panel) x views x number formats x wrap limits, plus
chaining (two hunks, two files) so that counter state carried across hunks and files is reached
from non-initial states. Reference: two counters (old = start_old, new = start_new); numbers read
from the cells carrying the reserved number styles.
"""
import itertools
import time

import build
import explore
import obs
import report
import runner
import term
from build import MachineryError
from explore import Violation
from lattice import base_opts, build_args, classify_style

PROP = "C05"

STARTS_QUICK = [(1, 1), (9, 10), (99, 100), (99999, 1000000), (10, 2)]
START_VALUES = [1, 2, 9, 10, 99, 100, 99999, 1000000]
LONG = "L234567890123456789012345678901234"   # 34 columns: wraps in a 14-column panel


def shapes(n):
    for k in range(1, n + 1):
        for w in itertools.product(" -+", repeat=k):
            yield "".join(w)


FRAG = "fn f(x=-1, y+2, z -3,4)"      # code fragment containing things that look like hunk coordinates


def hunk_lines(shape, os_, ns, long_mask, frag="", moved=False, uneven=None):
    oc = sum(1 for c in shape if c in " -")
    nc = sum(1 for c in shape if c in " +")

    def rng(s, c):
        return "%d" % s if c == 1 else "%d,%d" % (s, c)
    hh = "@@ -%s +%s @@%s" % (rng(os_, oc), rng(ns, nc), (" " + frag) if frag else "")
    lines = [hh]
    for i, c in enumerate(shape):
        content = (LONG if long_mask[i] else "x%d" % i)
        if uneven and c in "-+":
            # partners of different lengths: in a narrow panel the two halves of a row pair wrap into different
            # numbers of rows
            long_side = "-" if uneven == "minus" else "+"
            content = ("same same same same same same same x%d" if c == long_side else "same same same x%d") % i
        if moved == "pair":
            # similar lines, so that removed and added lines are partners (shown on one row side by side)
            content = "same same same same x%d" % i
        if moved and c == "-":
            # a removed line in git's color-moved colours keeps its raw text ("raw line" path)
            lines.append("\x1b[1;35m-" + content + "\x1b[m")
        elif moved and c == "+":
            lines.append("\x1b[1;36m+\x1b[m\x1b[1;36m" + content + "\x1b[m")
        else:
            lines.append(c + content)
    return lines


def run_shapes(task):
    """two shapes of real input around the hunk's extent (differential, no hand-written numbers):
    (1) an unchanged empty line written without its leading blank (`diff.suppressBlankEmpty`, `diff -u
        --suppress-blank-empty`, whitespace-stripping mail tools) is the same diff as with the blank: same output;
    (2) text after a hunk that is complete by the counts of its `@@` line (the `-- ` signature and version line that
        end every `git format-patch` file) is not part of the file: it carries no line numbers."""
    deadline, = task
    drv = explore.get_driver()
    viols = {}
    n = 0
    head = b"diff --git a/f.txt b/f.txt\n--- a/f.txt\n+++ b/f.txt\n@@ -1,5 +1,5 @@\n a\n"
    tail = b"-b\n+c\n d\n e\n"
    for label, o in (("line-numbers", {"line-numbers": True}), ("side-by-side", {"side-by-side": True, "width": "60"})):
        args = build_args(base_opts(o))
        cid = drv.mkconfig(args)
        a = drv.render1(cid, head + b" \n" + tail).out
        b = drv.render1(cid, head + b"\n" + tail).out
        n += 2
        if term.strip(a.decode()).replace(" ", "") != term.strip(b.decode()).replace(" ", ""):
            k = "empty-context-line-not-counted"
            if k not in viols:
                v = Violation(k, "[%s] the hunk with an entirely empty unchanged line is numbered differently from the same "
                              "hunk with ` ` for that line" % label, (head + b"\n" + tail).split(b"\n")[:-1], None,
                              term.strip(a.decode())[-300:], term.strip(b.decode())[-300:])
                v.args = args
                viols[k] = v
        body = b"diff --git a/f.txt b/f.txt\n--- a/f.txt\n+++ b/f.txt\n@@ -1,2 +1,2 @@\n a\n-b\n+c\n"
        r = drv.render1(cid, body + b"-- \n2.39.0\n\n")
        r0 = drv.render1(cid, body)
        n += 2
        rows = term.decode(r.out)
        extra = rows[len(term.decode(r0.out)):]
        numbered = [row.text for row in extra if any(c.isdigit() for t, st in row.runs
                                                      if classify_style(st) in ("ln_minus", "ln_plus", "ln_zero") for c in t)]
        if numbered:
            k = "text-after-complete-hunk-numbered"
            if k not in viols:
                v = Violation(k, "[%s] the hunk is complete after 3 lines (`@@ -1,2 +1,2 @@`), yet the mail signature `-- ` "
                              "that follows is shown as line %r of the file" % (label, numbered[0].strip()),
                              (body + b"-- \n2.39.0\n").split(b"\n")[:-1])
                v.args = args
                viols[k] = v
        drv.drop(cid)
    return {"n": n, "violations": list(viols.values())}


def file_header(name):
    return ["diff --git a/%s b/%s" % (name, name), "index 1111111..2222222 100644",
            "--- a/%s" % name, "+++ b/%s" % name]


# number formats: (label, left format, right format, placeholder order unified)
FORMATS = [
    ("default", None, None),
    ("right-left", "{nm:>3}│", "{np:<3}│"),
    ("both-in-left", "{nm:>4}{np:>5}│", ""),
    ("fill", "", "{np:_>6}│"),
]


def parse_numbers_unified(info, fmt):
    """-> (nm text or '', np text or '') read from the gutter runs of a unified row"""
    nums = [(t, c) for t, c in info.gutter_runs if c in ("ln_minus", "ln_plus", "ln_zero")]
    label = fmt[0]

    def clean(t):
        return t.strip(" _")
    if label == "fill":
        # only np is displayed
        return None, clean("".join(t for t, c in nums))
    if label == "both-in-left":
        if len(nums) == 1:
            t = nums[0][0]
            # "{nm:>4}{np:>5}": the np field is the last 5 columns (numbers are < 10000 here)
            return clean(t[:-5]), clean(t[-5:])
        if len(nums) == 2:
            return clean(nums[0][0]), clean(nums[1][0])
        raise MachineryError("cannot parse gutter %r" % (info.gutter_runs,))
    if len(nums) == 2:
        return clean(nums[0][0]), clean(nums[1][0])
    if len(nums) == 1:
        # adjacent fields of equal style cannot be separated; not produced by these formats
        raise MachineryError("merged gutter fields %r" % (info.gutter_runs,))
    raise MachineryError("cannot parse gutter %r" % (info.gutter_runs,))


def check_unified(out, hunks, fmt, hh_style):
    """hunks: list of (path, os, ns, shape). Walk rows in order with two counters."""
    rows = [obs.observe_row(r) for r in term.decode(out)]
    hi = -1
    old = new = None
    expect_rows = []
    for path, os_, ns, shape in hunks:
        expect_rows.append(("hh", path, ns))
        # within a run of changed lines delta shows removed lines first, then added ones
        i = 0
        while i < len(shape):
            if shape[i] == " ":
                expect_rows.append(("zero",))
                i += 1
            else:
                j = i
                seen_plus = False
                run = []
                while j < len(shape) and shape[j] != " ":
                    if shape[j] == "-" and seen_plus:
                        break
                    if shape[j] == "+":
                        seen_plus = True
                    run.append(shape[j])
                    j += 1
                expect_rows.extend([("minus",)] * run.count("-"))
                expect_rows.extend([("plus",)] * run.count("+"))
                i = j
    ei = 0
    counters = None
    hunk_iter = iter(hunks)
    for info in rows:
        if info.kind == "hunk":
            if ei >= len(expect_rows) or expect_rows[ei][0] != "hh":
                return "unexpected hunk header row %r" % info.text
            _, path, ns = expect_rows[ei]
            ei += 1
            h = next(hunk_iter)
            counters = [h[1], h[2]]
            lnr = "".join(t for t, c in info.body_runs if c == "hunk_ln")
            fil = "".join(t for t, c in info.body_runs if c == "hunk_file")
            if "line-number" in hh_style and lnr.strip() != str(ns):
                return "hunk header shows position %r, the hunk starts at line %d of the new file" % (lnr, ns)
            if "file" in hh_style.split() and fil.strip() != path:
                return "hunk header shows path %r, the hunk belongs to %r" % (fil, path)
            continue
        has_gutter = any(c in obs.LN for _, c in info.gutter_runs)
        if info.kind not in ("minus", "plus", "zero") and not has_gutter:
            continue
        # hunk header may be absent (style without line-number and no fragment)
        while ei < len(expect_rows) and expect_rows[ei][0] == "hh":
            h = next(hunk_iter)
            counters = [h[1], h[2]]
            ei += 1
        if ei >= len(expect_rows):
            return "more hunk rows than hunk lines"
        kind = expect_rows[ei][0]
        ei += 1
        # (a line shown in its input colours - git's moved-line colours - carries no reserved
        # background: it is recognised by its gutter and takes the expected kind)
        if info.kind in ("minus", "plus", "zero") and kind != info.kind:
            return "row kind %s where %s was expected" % (info.kind, kind)
        if fmt[0] == "none":
            continue
        nm, np_ = parse_numbers_unified(info, fmt)
        exp_nm = str(counters[0]) if kind in ("minus", "zero") else ""
        exp_np = str(counters[1]) if kind in ("plus", "zero") else ""
        if kind in ("minus", "zero"):
            counters[0] += 1
        if kind in ("plus", "zero"):
            counters[1] += 1
        if nm is not None and nm != exp_nm:
            return "%s line shows old-file number %r, true number %r" % (kind, nm, exp_nm)
        if np_ != exp_np:
            return "%s line shows new-file number %r, true number %r" % (kind, np_, exp_np)
    if ei != len(expect_rows):
        return "rows missing: %d of %d expected rows seen" % (ei, len(expect_rows))
    return None


def is_wrap_symbol_end(panel):
    """does the panel's text end (ignoring padding) in a cell painted with the inline-hint
    (wrap symbol) foreground?"""
    # (with highlighting off the symbol carries the line's own style, so it is recognised by
    # the configured symbol characters, which the generated contents never contain)
    t = panel.text.rstrip(" ")
    return t.endswith(("↵", "↴"))


def check_sbs(out, hunks, fmt):
    rows = term.decode(out)
    counters = None
    hunk_iter = iter(hunks)
    cont = {"left": False, "right": False}
    nminus = nplus = nzero = 0
    exp_minus = sum(h[3].count("-") for h in hunks)
    exp_plus = sum(h[3].count("+") for h in hunks)
    exp_zero = sum(h[3].count(" ") for h in hunks)
    for row in rows:
        r = obs.observe_sbs_row(row)
        if r is None:
            info = obs.observe_row(row)
            if info.kind == "hunk":
                h = next(hunk_iter)
                counters = [h[1], h[2]]
                lnr = "".join(t for t, c in info.body_runs if c == "hunk_ln")
                if lnr.strip() != str(h[2]):
                    return "hunk header shows position %r, the hunk starts at %d" % (lnr, h[2])
                cont = {"left": False, "right": False}
            continue
        if counters is None:
            return "side-by-side row before any hunk header"
        for side, panel, idx in (("left", r.left, 0), ("right", r.right, 1)):
            num = panel.number.strip(" _")
            if cont[side]:
                if num != "":
                    return "continuation row of a wrapped line carries number %r (%s panel)" % (num, side)
            else:
                if panel.kind in ("minus", "plus", "zero") or \
                        (panel.kind in ("empty", "other") and num != ""):
                    # a line starts here
                    want_kinds = ("minus", "zero") if side == "left" else ("plus", "zero")
                    if panel.kind == "empty" and num != "":
                        pass  # an empty line: kind comes from the number class
                    if num != str(counters[idx]):
                        return "%s panel shows number %r, true number %d" % (side, num, counters[idx])
                    counters[idx] += 1
                    if side == "left":
                        if panel.numclass == "ln_zero":
                            nzero += 1
                        else:
                            nminus += 1
                    else:
                        if panel.numclass != "ln_zero":
                            nplus += 1
                elif num != "":
                    return "%s panel without a line shows number %r" % (side, num)
            cont[side] = is_wrap_symbol_end(panel)
    if (nminus, nplus, nzero) != (exp_minus, exp_plus, exp_zero):
        return "numbered lines seen -%d +%d =%d, input has -%d +%d =%d" % (
            nminus, nplus, nzero, exp_minus, exp_plus, exp_zero)
    return None


def build_input(hunks_by_file):
    """hunks_by_file: list of (path, [(os, ns, shape, long_mask)])"""
    lines = []
    flat = []
    for path, hs in hunks_by_file:
        lines += file_header(path)
        for h in hs:
            os_, ns, shape, mask = h[:4]
            opt = h[4] if len(h) > 4 else ""
            lines += hunk_lines(shape, os_, ns, mask, frag=FRAG if "frag" in opt else "",
                                moved=("pair" if "movedpair" in opt else "moved" in opt),
                                uneven="minus" if "uneven-minus" in opt else "plus" if "uneven-plus" in opt else None)
            flat.append((path, os_, ns, shape))
    return ("\n".join(lines) + "\n").encode(), flat


def run_task(task):
    label, opts, view, fmt, hh_style, cases, deadline = task
    o = dict(opts)
    if fmt[1] is not None:
        o["line-numbers-left-format"] = fmt[1]
        o["line-numbers-right-format"] = fmt[2]
    o["hunk-header-style"] = hh_style
    if view == "sbs":
        o["side-by-side"] = True
    else:
        o["line-numbers"] = True
    args = build_args(base_opts(o))
    drv = explore.get_driver()
    cid = drv.mkconfig(args)
    n = 0
    distinct = set()
    viols = {}
    sample = None
    capped = False
    for i in range(0, len(cases), 200):
        if time.time() > deadline:
            capped = True
            break
        chunk = cases[i:i + 200]
        built = [build_input(c) for c in chunk]
        res = drv.render(cid, [b for b, _ in built])
        for c, (data, flat), r in zip(chunk, built, res):
            n += 1
            if r.panic:
                err = "panic: " + r.panic
                klass = "panic"
            else:
                try:
                    err = check_sbs(r.out, flat, fmt) if view == "sbs" else \
                        check_unified(r.out, flat, fmt, hh_style)
                except StopIteration:
                    err = "more hunk headers than hunks"
                klass = "wrong-number:" + view
            distinct.add(explore.h64(r.out))
            if sample is None:
                sample = {"config": label, "hunks": [list(map(str, f)) for f in flat]}
            if err:
                k2 = klass + ":" + err.split(" shows")[0][:40]
                if k2 not in viols or len(data) < len(b"\n".join(viols[k2].history)):
                    v = Violation(k2, err, data.split(b"\n")[:-1], None, None, None,
                                  {"hunks": [list(map(str, f)) for f in flat]})
                    v.args = args
                    v.config_label = label
                    viols[k2] = v
    drv.drop(cid)
    return {"label": label, "n": n, "distinct": distinct, "violations": list(viols.values()),
            "sample": sample, "capped": capped, "args": args}


def cases_for(tier, view):
    n = 5 if tier == "quick" else 7
    out = []
    starts = STARTS_QUICK if tier == "quick" else \
        [(a, b) for a in START_VALUES for b in START_VALUES]
    all_shapes = list(shapes(n))
    # single hunks: every shape x starts (short lines)
    for sh in all_shapes:
        sts = starts if len(sh) <= 4 or tier == "quick" else STARTS_QUICK
        for os_, ns in sts:
            out.append([("f.txt", [(os_, ns, sh, [False] * len(sh))])])
    # line lengths: every mask for shapes of length <= 3, all-long for the rest
    if view == "sbs":
        for sh in all_shapes:
            masks = list(itertools.product([False, True], repeat=len(sh)))[1:] if len(sh) <= 3 \
                else [tuple([True] * len(sh))]
            for m in masks:
                out.append([("f.txt", [(9, 99, sh, list(m))])])
    # partners of different lengths (the longer one removed, the longer one added)
    if view == "sbs":
        for sh in [x for x in shapes(4 if tier == "quick" else 5) if "-" in x and "+" in x]:
            out.append([("f.txt", [(40, 40, sh, [False] * len(sh), "uneven-minus")])])
            out.append([("f.txt", [(40, 40, sh, [False] * len(sh), "uneven-plus")])])
    # code fragments that contain coordinate look-alikes; moved-colour (raw) lines
    for sh in list(shapes(3)) + ["-- +", " --++ "]:
        out.append([("f.txt", [(5, 7, sh, [False] * len(sh), "frag")])])
        out.append([("f.txt", [(10, 20, sh, [False] * len(sh), "moved")])])
        out.append([("f.txt", [(10, 20, sh, [False] * len(sh), "movedpair")])])
        out.append([("f.txt", [(10, 20, sh, [False] * len(sh), "moved"), (40, 50, sh, [False] * len(sh), "frag")])])
    # chaining: two hunks in one file, and two files, over all pairs of shapes of length <= 2/3
    small = list(shapes(2 if tier == "quick" else 3))
    for a in small:
        for b in small:
            out.append([("f.txt", [(3, 4, a, [False] * len(a)), (98, 1000, b, [False] * len(b))])])
            out.append([("f.txt", [(7, 7, a, [False] * len(a))]), ("g.txt", [(1, 1, b, [False] * len(b))])])
    return out


ASSUMPTIONS = [
    "two-way unified diffs; shapes = all words over {' ','-','+'} up to the stated length; starts "
    "from a fixed set reaching beyond 10^6; counts omitted when 1 as git does",
    "number formats: default, right/left aligned, both numbers in the left field, fill character, "
    "(none: nothing to read, only row kinds checked)",
    "a continuation row is recognised from the wrap symbol (reserved inline-hint colour) ending the "
    "previous row of that panel; side-by-side width 40 (14-column panels) and 41",
]


def main(tier):
    t0 = time.time()
    build.ensure_built()
    tasks = []
    cu = cases_for(tier, "unified")
    cs = cases_for(tier, "sbs")
    small_u = [c for c in cu if all(s[0] < 10000 and s[1] < 10000 for _, hs in c for s in hs)]
    for fmt in FORMATS:
        for hh in ("line-number 110", "file line-number 110", "110"):
            if hh != "line-number 110" and fmt[0] != "default":
                continue
            cases = small_u if fmt[0] == "both-in-left" else cu
            tasks.append(("unified,fmt=%s,hh=%s" % (fmt[0], hh), {}, "unified", fmt, hh, cases))
    tasks.append(("unified,fmt=none", {"line-numbers-left-format": "", "line-numbers-right-format": ""},
                  "unified", ("none", None, None), "line-number 110",
                  [c for c in cu if not any(len(h) > 4 and "moved" in h[4] for _, hs in c for h in hs)][:2000]))
    for w in ("40", "41", "24"):
        for wrap in ("2", "1", "0"):
            if tier == "quick" and (w, wrap) not in (("40", "2"), ("41", "1"), ("24", "0"), ("40", "0")):
                continue
            for fmt in FORMATS[:2]:
                if fmt[0] != "default" and (w != "40"):
                    continue
                tasks.append(("sbs,width=%s,wrap-max-lines=%s,fmt=%s" % (w, wrap, fmt[0]),
                              {"width": w, "wrap-max-lines": wrap}, "sbs", fmt, "line-number 110", cs))
    cap = 50 if tier == "quick" else 900
    deadline = t0 + cap
    # split big case lists across workers
    split = []
    for label, opts, view, fmt, hh, cases in tasks:
        step = 4000
        for i in range(0, len(cases), step):
            split.append((label, opts, view, fmt, hh, cases[i:i + step], deadline))
    results = explore.pmap(run_task, split)
    sres = explore.pmap(run_shapes, [(deadline,)])
    n = 0
    distinct = set()
    viols = []
    caps = []
    samples = []
    for r in results:
        n += r["n"]
        distinct |= r["distinct"]
        if r["capped"]:
            caps.append(r["label"])
        if r["sample"] and len(samples) < 4:
            samples.append(r["sample"])
        viols.extend(r["violations"])
    for r in sres:
        n += r["n"]
        viols.extend(r["violations"])
    best = {}
    for v in viols:
        if v.klass not in best or len(v.history) < len(best[v.klass].history):
            best[v.klass] = v
    viols = sorted(best.values(), key=lambda v: v.klass)
    # CLI conformance on a few cases
    confcases = []
    for r in results[:: max(1, len(results) // 10)]:
        if r["sample"]:
            confcases.append((r["args"], build_input(cs[0])[0], None))
    nconf, mism = runner.cli_conformance(confcases)
    if mism:
        raise MachineryError("CLI conformance failed: " + mism[0])
    cov = {
        "evaluations": n, "distinct_nontrivial": len(distinct),
        "rule": "one evaluation = one diff (1-2 files, 1-2 hunks) rendered by the real code and "
                "checked row by row against two counters; distinct = distinct output byte strings; "
                "every case has at least one numbered row",
        "samples": samples, "configurations": len(tasks), "cli_conformance_replays": nconf,
        "max_shape_length": 5 if tier == "quick" else 7, "caps_hit": caps, "exhaustive": not caps,
    }
    return report.finish(PROP, tier, "exploration", cov, viols, ASSUMPTIONS, t0, runner.seed())
