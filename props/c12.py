"""C12 - style strings mean what git's colour language says they mean.

E2: all style strings of the grammar up to a token bound (colours x colours x attribute subsets,
in every token order, in three letter cases, with quoted colours), all 256 palette numbers as fg
and bg, an #rgb grid of hex colours, on several style-typed options, in 24-bit and 256-colour mode.
Reference: an independent reading of git's colour language (first colour = foreground, second =
background, attributes anywhere); the decoded cell of a probe text painted with the style must
carry exactly those colours and attributes. Round trip: the string printed by --show-config,
given back as the value, yields a byte-identical rendering of the probe.
"""
import itertools
import re
import time

import build
import explore
import report
import runner
import term
from build import MachineryError
from explore import Violation
from lattice import build_args

PROP = "C12"
ANY = "any"

NAMED = {"black": 0, "red": 1, "green": 2, "yellow": 3, "blue": 4, "magenta": 5, "purple": 5, "cyan": 6,
         "white": 7}
ATTRS = {"bold": term.BOLD, "dim": term.DIM, "italic": term.ITALIC, "ul": term.UL, "underline": term.UL,
         "blink": term.BLINK, "reverse": term.REVERSE, "hidden": term.HIDDEN, "strike": term.STRIKE}

CUBE = [0, 95, 135, 175, 215, 255]


def exact_256(r, g, b):
    """palette index if (r,g,b) is exactly representable in the xterm 256-colour palette"""
    if r in CUBE and g in CUBE and b in CUBE:
        return 16 + 36 * CUBE.index(r) + 6 * CUBE.index(g) + CUBE.index(b)
    if r == g == b and (r - 8) % 10 == 0 and 8 <= r <= 238:
        return 232 + (r - 8) // 10
    return None


def colour_value(tok, true_color):
    """reference meaning of one colour token -> None (terminal default) | ('i', n) | ('rgb',..) | ANY"""
    t = tok.lower().strip("\"'")
    if t == "normal":
        return None
    if t in ("auto", "syntax"):
        return ANY if t == "auto" else None
    if t in NAMED:
        return ("i", NAMED[t])
    m = re.match(r"^bright-?(\w+)$", t)
    if m and m.group(1) in NAMED:
        return ("i", NAMED[m.group(1)] + 8)
    if t.isdigit() and 0 <= int(t) <= 255:
        return ("i", int(t))
    m = re.match(r"^#([0-9a-f]{6})$", t)
    if m:
        r, g, b = (int(m.group(1)[i:i + 2], 16) for i in (0, 2, 4))
        if true_color:
            return ("rgb", r, g, b)
        e = exact_256(r, g, b)
        return ("i", e) if e is not None else ("i", ANY)
    raise ValueError(tok)


def reference(tokens, true_color):
    """tokens: list of (kind, text) with kind in colour/attr/special -> expected (fg, bg, attrs, omit, raw)"""
    fg = bg = None
    ncol = 0
    attrs = 0
    omit = raw = False
    for kind, t in tokens:
        if kind == "colour":
            v = colour_value(t, true_color)
            if ncol == 0:
                fg = v
            else:
                bg = v
            ncol += 1
        elif kind == "attr":
            attrs |= ATTRS[t.lower()]
        elif t.lower() == "omit":
            omit = True
        elif t.lower() == "raw":
            raw = True
    return fg, bg, attrs, omit, raw


def matches(style, exp):
    fg, bg, attrs = style
    efg, ebg, eattrs = exp

    def col_ok(got, want):
        if want == ANY:
            return True
        if isinstance(want, tuple) and want[0] == "i" and want[1] == ANY:
            return got is not None and got[0] == "i"
        return got == want
    return col_ok(fg, efg) and col_ok(bg, ebg) and attrs == eattrs


def gen_strings(tier):
    """yields (style string, token list)"""
    cols = ["normal", "red", "brightblue", "bright-yellow", "purple", "magenta", "7", "200",
            "#5f87af", "#123456", "#000000", "#ffffff", "auto"]
    if tier == "quick":
        cols = ["normal", "red", "bright-yellow", "purple", "200", "#5f87af", "#123456", "auto"]
    # (`underline` / `overline` are, in non-decoration styles, delta's documented way to ask for a
    # rule under / over the element; the statement lists `ul` as the text attribute)
    attr_names = ["bold", "dim", "italic", "ul", "blink", "reverse", "hidden", "strike"]
    attr_sets = [()] + [(a,) for a in attr_names] + \
        (list(itertools.combinations(attr_names, 2)) if tier == "thorough" else
         [("bold", "italic"), ("ul", "strike"), ("dim", "reverse"), ("blink", "hidden")])
    seen = set()
    for fg in [None, "syntax"] + cols:
        for bg in [None] + [c for c in cols if c != "syntax"]:
            if fg is None and bg is not None:
                continue
            for at in attr_sets:
                toks = []
                if fg:
                    toks.append(("colour", fg))
                if bg:
                    toks.append(("colour", bg))
                toks += [("attr", a) for a in at]
                if not toks:
                    continue
                # every token order that keeps the two colours in order
                orders = set(itertools.permutations(range(len(toks))))
                for order in orders:
                    pos = [order.index(i) for i in range(len(toks))]
                    if fg and bg and pos[0] > pos[1]:
                        continue
                    seq = [toks[i] for i in order]
                    s = " ".join(t for _, t in seq)
                    if s not in seen:
                        seen.add(s)
                        yield s, seq
    # letter cases and quoting on a core
    core = [[("colour", "red"), ("colour", "#5f87af"), ("attr", "bold")],
            [("attr", "italic"), ("colour", "bright-yellow"), ("attr", "ul")],
            [("colour", "purple"), ("colour", "normal")],
            [("colour", "normal"), ("colour", "200"), ("attr", "strike")]]
    for seq in core:
        for f in (str.upper, str.title, lambda x: x):
            s2 = [(k, f(t)) for k, t in seq]
            yield " ".join(t for _, t in s2), s2
        q = [(k, '"%s"' % t if k == "colour" else t) for k, t in seq]
        yield " ".join(t for _, t in q), q
    # omit / raw
    for seq in ([("special", "omit")], [("special", "raw")], [("colour", "red"), ("special", "omit")],
                [("attr", "bold"), ("special", "raw")]):
        yield " ".join(t for _, t in seq), seq


# option -> (input bytes, marker text whose cells are inspected, caller)
HEAD = b"diff --git a/f.txt b/f.txt\n--- a/f.txt\n+++ b/f.txt\n@@ -1,2 +1,2 @@\n"
PROBES = {
    "plus-style": (HEAD + b" ctx\n+PROBE\n", "PROBE", None),
    "minus-style": (HEAD + b" ctx\n-PROBE\n", "PROBE", None),
    "zero-style": (HEAD + b" PROBE\n", "PROBE", None),
    "file-style": (b"diff --git a/PROBE b/PROBE\n--- a/PROBE\n+++ b/PROBE\n@@ -1 +1 @@\n x\n", "PROBE", None),
    "commit-style": (b"commit PROBE1111111111111111111111111111111111\n", "PROBE", None),
    "minus-emph-style": (HEAD + b"-aaa bbb ccc ddd PROBE\n+aaa bbb ccc ddd other\n", "PROBE", None),
    "plus-emph-style": (HEAD + b"-aaa bbb ccc ddd other\n+aaa bbb ccc ddd PROBE\n", "PROBE", None),
    "line-numbers-zero-style": (HEAD.replace(b"-1,2 +1,2", b"-77,2 +77,2") + b" x\n", "77", None),
    "line-numbers-plus-style": (HEAD.replace(b"-1,2 +1,2", b"-5,0 +77,1") + b"+x\n", "77", None),
    "line-numbers-minus-style": (HEAD.replace(b"-1,2 +1,2", b"-77,1 +5,0") + b"-x\n", "77", None),
    "grep-file-style": (b"PROBE.rs:7:code\n", "PROBE.rs", ["git", "grep", "-n", "x"]),
    "grep-line-number-style": (b"f.rs:77:code\n", "77", ["git", "grep", "-n", "x"]),
    # (the file name above a file's hits in ripgrep-style output)
    "grep-header-file-style": (b"PROBE.rs:7:code\n", "PROBE.rs", ["git", "grep", "-n", "x"]),
    "hunk-header-line-number-style": (HEAD.replace(b"+1,2", b"+77,2") + b" x\n", "77", None),
    "blame-code-style": (b"01234567 (A U Thor 2020-01-01 00:00:00 +0000 1) PROBE\n", "PROBE", ["git", "blame", "f"]),
}
# not options of their own: the style a --map-styles entry maps to (probe: a line git marked as moved), and a colour of
# --blame-palette (colours only, the background of a blame line)
PSEUDO = {"map-styles-target": ("map-styles", "bold purple => %s"), "blame-palette-colour": ("blame-palette", "%s"),
          # grep-file-style is also the style of the file name above a file's hits in ripgrep-style output when
          # grep-header-file-style is not given
          "grep-file-style-in-ripgrep-header": ("grep-file-style", "%s")}
PROBES["grep-file-style-in-ripgrep-header"] = (b"PROBE.rs:7:code\n", "PROBE.rs", ["git", "grep", "-n", "x"])
PROBES["map-styles-target"] = (HEAD + b" ctx\n\x1b[1;35m-PROBE\x1b[m\n", "PROBE", None)
PROBES["blame-palette-colour"] = (b"01234567 (A U Thor 2020-01-01 00:00:00 +0000 1) PROBE\n", "PROBE", ["git", "blame", "f"])
# the wrap symbol of a wrapped side-by-side row (on an unchanged and on an added line)
PROBES["inline-hint-style"] = (HEAD + b" " + b"w" * 40 + b"\n+" + b"v" * 40 + b"\n", "\u21b5", None)
EXTRA_OPTS = {"inline-hint-style": {"side-by-side": True, "width": "60"},
              "line-numbers-zero-style": {"line-numbers": True, "hunk-header-style": "omit"},
              "line-numbers-plus-style": {"line-numbers": True, "hunk-header-style": "omit"},
              "line-numbers-minus-style": {"line-numbers": True, "hunk-header-style": "omit"},
              "grep-file-style": {"grep-output-type": "classic"},
              "grep-header-file-style": {"grep-output-type": "ripgrep"},
              "grep-file-style-in-ripgrep-header": {"grep-output-type": "ripgrep"},
              "grep-line-number-style": {"grep-output-type": "classic"}}


# options whose value may also hold decoration words: there `underline` (spelled out) asks for a line under the whole
# element, not for underlined text - only `ul` is the text attribute
DECO_AWARE = ("commit-style", "file-style", "hunk-header-style", "hunk-header-line-number-style", "hunk-header-file-style",
              "grep-header-file-style")


def base(option, value, true_color):
    probe_name = option
    if option in PSEUDO:
        option, value = PSEUDO[option][0], PSEUDO[option][1] % value
    o = {"no-gitconfig": True, "paging": "never", "detect-dark-light": "never", "dark": True,
         "syntax-theme": "none", "width": "60", "true-color": "always" if true_color else "never",
         option: value}
    o.update(EXTRA_OPTS.get(probe_name, EXTRA_OPTS.get(option, {})))
    return o


def probe_styles(out, marker):
    """set of styles carried by the cells of the marker text"""
    styles = set()
    found = False
    for row in term.decode(out):
        txt = row.text
        if marker not in txt:
            continue
        found = True
        start = txt.index(marker)
        pos = 0
        for t, st in row.runs:
            lo, hi = pos, pos + len(t)
            if hi > start and lo < start + len(marker):
                styles.add(st)
            pos = hi
        break
    return found, styles


def run_task(task):
    option, true_color, items, deadline = task
    inp, marker, caller = PROBES[option]
    drv = explore.get_driver(caller=caller)
    n = 0
    viols = {}
    distinct = set()
    capped = False
    sample = None
    for s, seq in items:
        if time.time() > deadline:
            capped = True
            break
        n += 1
        fg, bg, attrs, omit, raw = reference(seq, true_color)
        if option == "inline-hint-style" and bg is None:
            bg = ANY                # inserted into a line that has a background of its own
        if option == "blame-palette-colour":
            fg, bg = None, fg       # a palette entry is a background colour
        if fg is None and any(k == "colour" and t.lower() == "syntax" for k, t in seq[:1] if True):
            pass
        args = build_args(base(option, s, true_color))
        err = None
        try:
            cid = drv.mkconfig(args)
        except explore.Rejected as e:
            err = "style string %r rejected: %s" % (s, str(e)[:80])
            klass = "valid-style-rejected"
            cid = None
        if cid is not None:
            r = drv.render1(cid, inp)
            if r.panic:
                err, klass = "panic: " + r.panic, "panic"
            elif omit or raw:
                pass        # element not shown / input passed through: nothing to decode
            else:
                found, styles = probe_styles(r.out, marker)
                if not found:
                    err, klass = "probe text not found in output", "probe-missing"
                elif len(styles) != 1 or not matches(next(iter(styles)), (fg, bg, attrs)):
                    err = "%s=%r paints with %s, git's language says fg=%s bg=%s attrs=%s" % (
                        option, s, sorted(term.style_str(x) for x in styles), fg, bg,
                        term.style_str((None, None, attrs)).split(" ")[-1])
                    klass = "wrong-style"
                    if bg is not None and len(styles) == 1 and next(iter(styles))[1] is None:
                        klass = "wrong-style:background-lost"
                else:
                    distinct.add(next(iter(styles)))
            # round trip through --show-config (every option it lists; also for omit / raw strings)
            if err is None and option not in PSEUDO:
                cfg_text, _ = drv.showconfig(cid)
                m = re.search(r"^\s+%s\s+= (.*)$" % re.escape(option), term.strip(cfg_text), re.M)
                if not m:
                    # (--show-config lists a selection of the options)
                    if option in ("plus-style", "zero-style", "file-style", "commit-style"):
                        err, klass = "option not found in --show-config", "show-config"
                else:
                    back = m.group(1).strip()
                    try:
                        cid2 = drv.mkconfig(build_args(base(option, back, true_color)))
                        r2 = drv.render1(cid2, inp)
                        drv.drop(cid2)
                        if r2.out != r.out:
                            err = "--show-config prints %r for %r; given back it renders differently" % (back, s)
                            klass = "round-trip"
                    except explore.Rejected as e:
                        err = "--show-config prints %r for %r, which delta then rejects" % (back, s)
                        klass = "round-trip-rejected"
            drv.drop(cid)
        if sample is None:
            sample = {"option": option, "style": s, "expected": [str(fg), str(bg), attrs]}
        if err and klass not in viols:
            v = Violation(klass + ":" + option, err, inp.split(b"\n")[:-1])
            v.args = args
            v.caller = caller
            v.config_label = "%s,true-color=%s" % (option, true_color)
            viols[klass] = v
    return {"n": n, "violations": list(viols.values()), "distinct": len(distinct), "capped": capped,
            "sample": sample, "label": option}


ASSUMPTIONS = [
    "grammar: up to two colours (named, bright-named with and without dash, 0-255, #rrggbb, normal, "
    "auto, syntax first) + attributes (bold dim italic ul blink reverse hidden strike) + "
    "omit / raw, any order, three letter cases, quoted colours",
    "`auto` stands for delta's own default colour: any colour accepted in that slot; a hex colour in "
    "256-colour mode must be a palette entry, the exact one when exactly representable",
    "probe texts per option as in props/c12.py; highlighting off so that `syntax` means no foreground",
    "not demanded: which of two alias names --show-config prints",
]


CASE_INPUT = (b"commit 1111111111111111111111111111111111111111\nAuthor: A\n\n    msg\n\n"
              b"diff --git a/f.rs b/f.rs\n--- a/f.rs\n+++ b/f.rs\n@@ -1,2 +1,2 @@ fn f()\n a\n-b\n+c\n"
              b"diff --cc g.txt\nindex 1,2..3\n--- a/g.txt\n+++ b/g.txt\n@@@ -1,3 -1,3 +1,5 @@@\n  a\n"
              b"++<<<<<<< HEAD\n +o\n++=======\n+ t\n++>>>>>>> br\n")
CASE_OPTS = ["commit-decoration-style", "file-decoration-style", "hunk-header-decoration-style",
             "merge-conflict-ours-diff-header-decoration-style", "merge-conflict-theirs-diff-header-decoration-style",
             "commit-style", "file-style", "hunk-header-style", "merge-conflict-ours-diff-header-style",
             "plus-style", "minus-style", "zero-style", "line-numbers-plus-style", "hunk-header-file-style"]
# only words the statement lists (colours, the ten attributes incl. omit / raw): delta's own words (box, ol, file,
# line-number, omit-code-fragment, none) are not claimed to be case-insensitive
CASE_VALUES = ["blue ul", "ul", "blue bold ul", "red blue italic", "omit", "raw", "syntax bold", "bright-blue normal",
               "reverse dim strike blink hidden", "auto auto", "purple ul bold", "#ff0000 ul"]


def run_case(task):
    """letter-case law: a style string means the same in upper, title and mixed case"""
    opts_, deadline = task
    drv = explore.get_driver()
    viols = {}
    n = 0
    distinct = set()

    def render(opt, val):
        o = base(opt, val, False)
        o["line-numbers"] = True
        try:
            cid = drv.mkconfig(build_args(o))
        except explore.Rejected as e:
            return ("rejected", str(e)[:60])
        r = drv.render1(cid, CASE_INPUT)
        drv.drop(cid)
        return ("panic", r.panic) if r.panic else ("out", r.out)

    for opt in opts_:
        for val in CASE_VALUES:
            ref = render(opt, val)
            distinct.add(explore.h64(repr(ref)))
            for name, f in (("upper", str.upper), ("title", str.title),
                            ("alternating", lambda x: "".join(c.upper() if i % 2 else c for i, c in enumerate(x)))):
                n += 1
                got = render(opt, f(val))
                if got[0] != ref[0] or (got[0] == "out" and got[1] != ref[1]):
                    klass = "letter-case:" + opt
                    if klass not in viols:
                        v = Violation(klass, "--%s %r and %r (%s case) are not treated alike: %s vs %s"
                                      % (opt, val, f(val), name, ref[0], got[0]), CASE_INPUT.split(b"\n")[:-1],
                                      None, ref[1] if isinstance(ref[1], bytes) else None,
                                      got[1] if isinstance(got[1], bytes) else None)
                        v.args = build_args(base(opt, f(val), False))
                        viols[klass] = v
    return {"n": n, "distinct": len(distinct), "violations": list(viols.values())}


def main(tier):
    t0 = time.time()
    build.ensure_built()
    cap = 50 if tier == "quick" else 1200
    deadline = t0 + cap
    items = list(gen_strings(tier))
    core40 = items[:: max(1, len(items) // 40)][:40]
    # `omit` / `raw` together with other words (elements that do not honour them paint with the other words)
    specials = [x for x in items if any(k == "special" for k, _ in x[1])] + \
        [(t, [(("special" if w in ("raw", "omit") else "attr" if w.lower() in ATTRS else "colour"), w) for w in t.split()])
         for t in ("raw red", "bold raw yellow 57", "raw reverse red", "omit blue", "raw omit",
                   # a background alone next to raw / omit (the `normal` that holds the first slot must survive the round trip)
                   "raw normal red", "raw normal 200", "normal #5f87af raw", "omit normal red", "raw normal normal",
                   # the long spelling of ul, alone and with colours
                   "underline", "blue underline", "bold underline 101 102", "UNDERLINE red")]
    sweeps = []
    nums = range(256)
    for n in nums:
        sweeps.append(("%d" % n, [("colour", "%d" % n)]))
        sweeps.append(("normal %d" % n, [("colour", "normal"), ("colour", "%d" % n)]))
    grid = range(0, 256, 17) if tier == "thorough" else (0, 95, 128, 255)
    for r in grid:
        for g in grid:
            for b in grid:
                h = "#%02x%02x%02x" % (r, g, b)
                sweeps.append((h, [("colour", h)]))
                sweeps.append(("normal " + h, [("colour", "normal"), ("colour", h)]))
    tasks = []
    for tc in (True, False):
        for opt in ("plus-style", "zero-style", "file-style"):
            its = items if (opt == "plus-style" or tier == "thorough") else items[::4]
            for i in range(0, len(its), 600):
                tasks.append((opt, tc, its[i:i + 600], deadline))
            tasks.append((opt, tc, [x for x in specials if opt not in DECO_AWARE or "underline" not in x[0].lower()], deadline))
        for i in range(0, len(sweeps), 500):
            tasks.append(("plus-style", tc, sweeps[i:i + 500], deadline))
        for opt in PROBES:
            if opt == "blame-palette-colour":
                cols = [x for x in sweeps if len(x[1]) == 1]
                tasks.append((opt, tc, cols[::7] + [x for x in cols if x[0].startswith("#")], deadline))
            elif opt == "map-styles-target":
                tasks.append((opt, tc, [x for x in core40 if not any(k == "special" for k, _ in x[1])]
                              + [x for x in sweeps if x[0].startswith(("normal #", "#"))][::3], deadline))
            elif opt not in ("plus-style", "zero-style", "file-style"):
                tasks.append((opt, tc, core40 + [x for x in specials if opt not in DECO_AWARE
                                                 or "underline" not in x[0].lower()], deadline))
    res = explore.pmap(run_task, tasks)
    res_case = explore.pmap(run_case, [([o], deadline) for o in CASE_OPTS])
    n = sum(r["n"] for r in res)
    viols = []
    for r in res:
        viols.extend(r["violations"])
    for r in res_case:
        viols.extend(r["violations"])
    best = {}
    for v in viols:
        if v.klass not in best:
            best[v.klass] = v
    viols = sorted(best.values(), key=lambda v: v.klass)
    caps = sorted(set(r["label"] for r in res if r["capped"]))
    cov = {
        "evaluations": n, "distinct_nontrivial": sum(r["distinct"] for r in res),
        "rule": "evaluation = one (option, style string, colour mode): config built by the real option "
                "processing, probe rendered, cells decoded; non-trivial = distinct decoded styles observed "
                "per task, summed",
        "samples": [r["sample"] for r in res if r["sample"]][:4],
        "style_strings": len(items), "sweep_strings": len(sweeps), "options": sorted(PROBES),
        "letter_case_law": {"options": len(CASE_OPTS), "values": len(CASE_VALUES), "comparisons": sum(r["n"] for r in res_case),
                            "distinct_reference_outcomes": sum(r["distinct"] for r in res_case)},
        "caps_hit": caps, "exhaustive": not caps,
    }
    return report.finish(PROP, tier, "exploration", cov, viols, ASSUMPTIONS, t0, runner.seed())
