"""C08 - git's default colouring is ignored; moved-line and raw colours are preserved.

E2, differential, with the real git (2.39) as producer:
(i)  every file pair (old, new) with <= n lines per side over 5 line contents: `git diff
     --no-index` with --color=never and --color=always (plus the older single-sequence form of
     added lines and `ESC[0m` resets derived by rewriting, and `git log -p --color` on a scratch
     repository for commit/meta lines): delta's output bytes must be equal, under d<=1 / d<=2 modes.
(ii) moved lines: every SGR rendition (16/256/24-bit colours as fg and bg, attribute subsets) on a
     removed and an added line: the decoded text cells carry exactly that rendition, or the style
     --map-styles assigns to it.
(iii) elements whose style is `raw` keep their input bytes.
"""
import itertools
import os
import re
import shutil
import subprocess
import tempfile
import time

import build
import explore
import obs
import report
import runner
import term
from build import MachineryError
from explore import Violation
from lattice import Dim, base_opts, build_args, deviations

PROP = "C08"
LINE_CONTENTS = ["a", "b c", "b  c ", "\tx", "", "y" * 31 + "漢 ", "d\r", "e\r\r"]   # the last two: a CRLF line, a CR CR LF line

# content that ends in the beginning of an escape sequence (a literal ESC in a shell script or a vimrc): in the
# coloured diff git's own ESC[m follows it directly (indices 100.. in file tuples)
ESC_CONTENTS = ["s=\x1b", "S=\x1b", "t=\x1b[1;", "u=\x1b]0;title"]

DIMS = [
    Dim("view", [("unified", {}), ("sbs", {"side-by-side": True})]),
    Dim("line-numbers", [("off", {}), ("on", {"line-numbers": True})]),
    Dim("markers", [("off", {}), ("on", {"keep-plus-minus-markers": True})]),
    Dim("hyperlinks", [("off", {}), ("on", {"hyperlinks": True})]),
    Dim("navigate", [("off", {}), ("on", {"navigate": True})]),
    Dim("preset", [("none", {}), ("diff-so-fancy", {"diff-so-fancy": True}),
                   ("diff-highlight", {"diff-highlight": True})]),
    Dim("width", [("40", {}), ("20", {"width": "20"}), ("variable", {"width": "variable"})]),
    Dim("syntax", [("none", {}), ("on", {"syntax-theme": "Monokai Extended"})]),
    Dim("default-styles", [("reserved", {}), ("delta-defaults", {"_plain": True})]),
    # truncation works on the raw (still coloured) line: the cut must fall at the same visible column
    # (longer than every header line, shorter than the long content line, whose double-width character
    # straddles the cut)
    Dim("max-line-length", [("3000", {}), ("33", {"max-line-length": "33"}), ("34", {"max-line-length": "34"})]),
]

GIT_ENV = {"PATH": "/usr/local/bin:/usr/bin:/bin", "HOME": "/nonexistent", "GIT_CONFIG_NOSYSTEM": "1",
           "GIT_CONFIG_GLOBAL": "/dev/null", "LC_ALL": "C.UTF-8", "GIT_PAGER": "cat", "TZ": "UTC",
           "GIT_AUTHOR_NAME": "A", "GIT_AUTHOR_EMAIL": "a@example.com", "GIT_COMMITTER_NAME": "A",
           "GIT_COMMITTER_EMAIL": "a@example.com", "GIT_AUTHOR_DATE": "2020-01-01T00:00:00Z",
           "GIT_COMMITTER_DATE": "2020-01-01T00:00:00Z"}


def files(n):
    """all files of <= n lines over LINE_CONTENTS (as tuples of line indices), incl. the empty file; a
    trailing -1 marks a file whose last line has no newline (git then emits `\ No newline at end of file`)"""
    out = [()]
    for k in range(1, n + 1):
        for t in itertools.product(range(len(LINE_CONTENTS)), repeat=k):
            out.append(t)
            if LINE_CONTENTS[t[-1]] != "":
                out.append(t + (-1,))
    return out


def file_text(t):
    nonl = bool(t) and t[-1] == -1
    lines = [ESC_CONTENTS[i - 100] if i >= 100 else LINE_CONTENTS[i] for i in t if i >= 0]
    s = "".join(l + "\n" for l in lines)
    return s[:-1] if nonl else s


def git_diff(tmp, old, new, colour, extra=()):
    with open(os.path.join(tmp, "o.txt"), "w") as f:
        f.write(file_text(old))
    with open(os.path.join(tmp, "n.txt"), "w") as f:
        f.write(file_text(new))
    p = subprocess.run(["git", "diff", "--no-index", "--color=" + colour] + list(extra) + ["o.txt", "n.txt"],
                       cwd=tmp, env=GIT_ENV, stdout=subprocess.PIPE, stderr=subprocess.PIPE)
    if p.returncode not in (0, 1):
        raise MachineryError("git diff failed: " + p.stderr.decode())
    return p.stdout


def old_style_added(data):
    """older git colours an added line with one sequence: ESC[32m+text ESC[m"""
    return data.replace(b"\x1b[32m+\x1b[m\x1b[32m", b"\x1b[32m+")


def zero_resets(data):
    return data.replace(b"\x1b[m", b"\x1b[0m")


HH_PLAIN = re.compile(rb"^(@@ [^@]* @@)$", re.M)
HH_COLOURED = re.compile(rb"^(\x1b\[36m@@ [^@]* @@\x1b\[m)$", re.M)


def produce(task):
    """worker: run git for a slice of pairs; returns list of (old, new, plain, [coloured variants])"""
    pairs = task
    tmp = tempfile.mkdtemp(prefix="verif_c08_")
    out = []
    try:
        for old, new in pairs:
            if old == new:
                continue
            plain = git_diff(tmp, old, new, "never")
            col = git_diff(tmp, old, new, "always")
            # a changed line whose first colour is not the plain removed/added colour (git's
            # whitespace-error background on a blank added line) is by the statement's definition
            # shown in its input colours: not part of the equality claim
            if any(l.startswith(b"\x1b[") and not l.startswith((b"\x1b[31m", b"\x1b[32m", b"\x1b[1m",
                                                               b"\x1b[36m", b"\x1b[m"))
                   for l in col.split(b"\n")):
                continue
            variants = [col, old_style_added(col), zero_resets(col)]
            out.append((old, new, plain, variants))
            # the same diff with a function context in its hunk headers, as git writes it (such a hunk header is
            # longer than the smaller --max-line-length levels; hunk headers are exempt from truncation)
            if len(old) + len(new) <= 2:
                fc = b"int main(int argc, char **argv)"
                out.append((old, new, HH_PLAIN.sub(lambda m: m.group(1) + b" " + fc, plain),
                            [HH_COLOURED.sub(lambda m: m.group(1) + b" \x1b[m" + fc + b"\x1b[m", col)]))
    finally:
        shutil.rmtree(tmp, ignore_errors=True)
    return out


def run_equal(task):
    label, ov, cases, deadline = task
    opts = {k: v for k, v in ov.items() if not k.startswith("_")}
    if ov.get("_plain"):
        opts.setdefault("commit-style", "yellow")   # delta's default commit-style is raw
        if ov.get("diff-highlight"):
            # the diff-highlight emulation styles these elements `raw`: raw elements keep their input
            # colouring by definition and are outside the equality claim
            opts.setdefault("file-style", "blue")
            opts.setdefault("hunk-header-style", "blue")
    args = build_args(base_opts(opts, reserved=not ov.get("_plain")))
    drv = explore.get_driver()
    try:
        cid = drv.mkconfig(args)
    except explore.Rejected as e:
        return {"label": label, "rejected": str(e)[:100]}
    n = 0
    viols = {}
    differing_inputs = 0
    capped = False
    for i in range(0, len(cases), 64):
        if time.time() > deadline:
            capped = True
            break
        chunk = cases[i:i + 64]
        inputs = []
        for old, new, plain, variants in chunk:
            inputs.append(plain)
            inputs.extend(variants)
        res = explore.render_robust(drv, cid, inputs)
        k = 0
        for old, new, plain, variants in chunk:
            rp = res[k]
            k += 1
            for vi, v in enumerate(variants):
                rv = res[k]
                k += 1
                n += 1
                if v != plain:
                    differing_inputs += 1
                bad = None
                if isinstance(rp, Exception) or isinstance(rv, Exception):
                    bad = "hang/death"
                elif rp.panic or rv.panic:
                    bad = "panic: %s" % (rp.panic or rv.panic)
                elif rp.out != rv.out:
                    bad = "output differs between the plain and the coloured (variant %d) input" % vi
                if bad:
                    klass = "colour-not-ignored:v%d" % vi if "differs" in bad else "crash"
                    if b"\x1b" in plain and klass != "crash":
                        klass = "escape-in-content:" + klass     # (a class of its own: see known_findings.json)
                    if klass not in viols or len(v) < len(b"\n".join(viols[klass].history)):
                        j = 0
                        a, b = rp.out, rv.out
                        while j < min(len(a), len(b)) and a[j] == b[j]:
                            j += 1
                        vv = Violation(klass, bad + " (first difference at byte %d)" % j,
                                       v.split(b"\n")[:-1], None, a[max(0, j - 40):j + 80],
                                       b[max(0, j - 40):j + 80], {"plain_input": plain.decode("latin-1")})
                        vv.args = args
                        vv.config_label = label
                        viols[klass] = vv
    drv.drop(cid)
    return {"label": label, "n": n, "differing_inputs": differing_inputs,
            "violations": list(viols.values()), "capped": capped, "args": args}


# ---------------------------------------------------------------------------------------------
# (ii) moved-line renditions

def renditions(tier):
    cols = []
    for c in list(range(30, 38)) + list(range(90, 98)):
        cols.append((str(c), ("i", c - 30 if c < 90 else c - 90 + 8)))
    n256 = range(256) if tier == "thorough" else list(range(0, 256, 5)) + [255]
    for n in n256:
        cols.append(("38;5;%d" % n, ("i", n)))
    for rgb in [(0, 0, 0), (255, 255, 255), (255, 0, 0), (0, 255, 0), (0, 0, 255), (1, 2, 3),
                (128, 128, 128), (95, 135, 175)]:
        cols.append(("38;2;%d;%d;%d" % rgb, ("rgb",) + rgb))
    attrs = [(), (1,), (2,), (3,), (4,), (5,), (7,), (8,), (9,)] + \
        list(itertools.combinations((1, 2, 3, 4, 5, 7, 8, 9), 2)) + [(1, 2, 3, 4, 5, 7, 8, 9)]
    out = []
    abit = {1: term.BOLD, 2: term.DIM, 3: term.ITALIC, 4: term.UL, 5: term.BLINK, 7: term.REVERSE,
            8: term.HIDDEN, 9: term.STRIKE}
    # fg x a few attr sets ; bg x a few ; fg+bg corners ; attrs alone
    for sg, fg in cols:
        for at in ((), (1,), (3, 4)):
            params = ";".join([str(a) for a in at] + [sg])
            out.append((params, (fg, None, sum(abit[a] for a in at))))
    for sg, bg in cols:
        bgsg = sg.replace("38;", "48;") if sg.startswith("38;") else str(int(sg) + 10)
        out.append((bgsg, (None, bg, 0)))
        out.append(("1;" + bgsg, (None, bg, term.BOLD)))
    for (sg, fg), (sg2, bg) in itertools.product(cols[::7], cols[3::9]):
        bgsg = sg2.replace("38;", "48;") if sg2.startswith("38;") else str(int(sg2) + 10)
        out.append((sg + ";" + bgsg, (fg, bg, 0)))
    for at in attrs:
        if at:
            out.append((";".join(str(a) for a in at), (None, None, sum(abit[a] for a in at))))
    return out


def moved_input(params, sign, partner=False):
    """partner: the moved line has a similar line of the other kind next to it (plainly coloured by git), so that
    delta's edit inference treats the two as a pair"""
    esc = b"\x1b[" + params.encode() + b"m"
    head = b"diff --git a/f b/f\n--- a/f\n+++ b/f\n@@ -1,2 +1,2 @@\n ctx\n"
    if sign == "-":
        tail = b"\x1b[32m+\x1b[m\x1b[32mmoved text partner\x1b[m\n" if partner else b""
        return head + esc + b"-moved text" + b"\x1b[m\n" + tail + b" ctx2\n"
    pre = b"\x1b[31m-moved text partner\x1b[m\n" if partner else b""
    return head + pre + esc + b"+" + b"\x1b[m" + esc + b"moved text" + b"\x1b[m\n ctx2\n"


def is_plain(params, want, sign):
    """git's plain removed/added colour in any encoding: 31 and 38;5;1 are the same colour (red, no
    attribute, no background), likewise 32 and 38;5;2"""
    return want == (("i", 1 if sign == "-" else 2), None, 0)


def run_moved(task):
    label, ov, rends, mapping, deadline = task
    opts = {k: v for k, v in ov.items() if not k.startswith("_")}
    if mapping:
        opts["map-styles"] = ", ".join("%s => %s" % (v[2], v[0]) for k, v in mapping.items())
    args = build_args(base_opts(opts))
    drv = explore.get_driver()
    cid = drv.mkconfig(args)
    viols = {}
    n = 0
    distinct = set()
    for i in range(0, len(rends), 100):
        chunk = rends[i:i + 100]
        inputs = []
        meta = []
        for params, want in chunk:
            for sign in "-+":
                if is_plain(params, want, sign):
                    continue
                for partner in ((False, True) if (i == 0 or ov.get("_partners")) and not ov.get("side-by-side")
                                else (False,)):
                    inputs.append(moved_input(params, sign, partner))
                    meta.append((params, want, sign))
        res = explore.render_robust(drv, cid, inputs)
        for (params, want, sign), r in zip(meta, res):
            n += 1
            if isinstance(r, Exception) or r.panic:
                err = "crash: %s" % (r if isinstance(r, Exception) else r.panic)
            else:
                err = None
                found = False
                for row in term.decode(r.out):
                    if "moved text" in row.text and "partner" not in row.text:
                        found = True
                        styles = set(st for t, st in row.runs if "moved" in t or "text" in t)
                        exp = mapping[params][1] if mapping and params in mapping else want
                        if ov.get("inspect-raw-lines") == "false":
                            # the documented kill-switch: input colours are not examined at all, a moved line is
                            # an ordinary removed / added line (reserved plain styles of lattice.py)
                            exp = (None, ("i", 101 if sign == "-" else 104), 0)
                            # (paired with a similar line, its unchanged part carries the non-emph style)
                            ok_bgs = (101, 102, 103) if sign == "-" else (104, 105, 106)
                            if all(s_[0] is None and s_[1] in [("i", b) for b in ok_bgs] and s_[2] == 0 for s_ in styles):
                                styles = {exp}
                        if styles != {exp}:
                            err = "moved %s line coloured ESC[%sm is shown with %s, expected %s" % (
                                sign, params, sorted(term.style_str(s) for s in styles), term.style_str(exp))
                        distinct.add(exp)
                if not found:
                    err = "moved line not found in the output"
            if err:
                klass = "moved-colour-lost:" + ("mapped" if mapping else "raw") + ":" + sign
                if klass not in viols:
                    v = Violation(klass, err, moved_input(params, sign).split(b"\n")[:-1])
                    v.args = args
                    v.config_label = label
                    viols[klass] = v
    drv.drop(cid)
    return {"label": label, "n": n, "distinct": len(distinct), "violations": list(viols.values())}


# ---------------------------------------------------------------------------------------------
# (iii) raw styles keep their input bytes; git log -p producer

def run_moved_syntax(task):
    """a moved line mapped to a style that asks for syntax colours (`--map-styles 'bold purple => syntax 103'`) is shown
    in that style whatever precedes it in its run: the same row after 0..2 ordinary removed / added lines (real
    `git diff --color-moved` puts the plain removed blank line in front of a moved function) and after unchanged lines"""
    (deadline,) = task
    import itertools
    drv = explore.get_driver()
    viols = []
    n = 0
    distinct = set()
    head = b"diff --git a/f.rs b/f.rs\n--- a/f.rs\n+++ b/f.rs\n@@ -1,9 +1,9 @@\n"
    code = b'fn main() { let x = "s"; } // c'
    for label, ov in (("unified", {}), ("sbs", {"side-by-side": True, "width": "100"}), ("line-numbers", {"line-numbers": True})):
        o = dict(ov)
        o.update({"map-styles": "bold purple => syntax 103, bold cyan => syntax 104", "syntax-theme": "Monokai Extended",
                  "true-color": "always", "max-line-distance": "0"})
        args = build_args(base_opts(o))
        cid = drv.mkconfig(args)
        for sign, sgr, plain_sgr in ((b"-", b"1;35", b"31"), (b"+", b"1;36", b"32")):
            moved = b"\x1b[" + sgr + b"m" + sign + code + b"\x1b[m"
            ordinary = [b"\x1b[" + plain_sgr + b"m" + sign + b"\x1b[m", b"\x1b[" + plain_sgr + b"m" + sign + b"other();\x1b[m"]
            prefixes = [()] + [p_ for L in (1, 2) for p_ in itertools.product(ordinary + [b" ctx"], repeat=L)]
            res = drv.render(cid, [head + b"".join(l + b"\n" for l in p_) + moved + b"\n ctx2\n" for p_ in prefixes])
            rows = []
            for r in res:
                n += 1
                rr = None
                if not r.panic:
                    rr = []
                    for row in term.decode(r.out):
                        cs = row.cells()
                        txt = "".join(c for c, _ in cs)
                        if "fn main()" in txt:
                            i0 = txt.index("fn main()")
                            rr.append(cs[i0:i0 + len(code)])
                rows.append(rr)
                distinct.add(repr(rr))
            for p_, rr in zip(prefixes, rows):
                if rr is not None and rows[0] is not None and rr != rows[0] \
                        and not any(v.klass == "moved-style-depends-on-run" for v in viols):
                    v = Violation("moved-style-depends-on-run", "[%s] a moved %s line mapped to `syntax 10x` is painted differently "
                                  "after the lines %r than at the start of its hunk" % (label, sign.decode(), [x.decode("latin-1") for x in p_]),
                                  (head + b"".join(l + b"\n" for l in p_) + moved + b"\n").split(b"\n")[:-1])
                    v.args = args
                    v.config_label = "moved-syntax," + label
                    viols.append(v)
        drv.drop(cid)
    return {"label": "moved-syntax", "n": n, "violations": viols, "distinct": len(distinct)}


def make_repo():
    tmp = tempfile.mkdtemp(prefix="verif_c08_repo_")
    def git(*a):
        p = subprocess.run(["git"] + list(a), cwd=tmp, env=GIT_ENV, stdout=subprocess.PIPE,
                           stderr=subprocess.PIPE)
        if p.returncode != 0:
            raise MachineryError("git %r failed: %s" % (a, p.stderr.decode()))
        return p.stdout
    git("init", "-q", "-b", "main", ".")
    for i, content in enumerate(["a\nb\nc\n", "a\nB \nc\nd\n", "a\nc\nd\n\te\n"]):
        with open(os.path.join(tmp, "f.txt"), "w") as f:
            f.write(content)
        if i == 1:
            with open(os.path.join(tmp, "g.rs"), "w") as f:
                f.write("fn main() {}\n")
        git("add", "-A")
        git("commit", "-q", "-m", "commit %d" % i)
    outs = {}
    for name, cmd in [("log", ["log", "-p"]), ("show", ["show", "HEAD"]), ("log-moved", ["log", "-p", "--color-moved=no"])]:
        outs[name] = (git(*(cmd + ["--color=never"])), git(*(cmd + ["--color=always"])))
    # a merge whose result differs from both parents: combined diffs with every marker pair (`- `, ` -`, `--`, `+ `,
    # ` +`, `++`), as `git show` (--cc) and `git log -c` write them
    def write(name, lines):
        with open(os.path.join(tmp, name), "w") as f:
            f.write("".join(l + "\n" for l in lines))
    write("m.txt", ["l1", "l2", "l3", "l4", "l5", "l6"])
    git("add", "-A")
    git("commit", "-q", "-m", "base")
    git("checkout", "-q", "-b", "side")
    write("m.txt", ["l1", "l2 theirs", "l3", "l4", "l6", "l7 side"])
    git("commit", "-q", "-a", "-m", "side")
    git("checkout", "-q", "main")
    write("m.txt", ["l1", "l2 ours", "l3", "l5", "l6"])
    git("commit", "-q", "-a", "-m", "ours")
    subprocess.run(["git", "merge", "-q", "side"], cwd=tmp, env=GIT_ENV, stdout=subprocess.PIPE, stderr=subprocess.PIPE)
    write("m.txt", ["l1", "l2 merged", "l3", "l6", "l7 side", "l8 new \t"])
    git("add", "-A")
    git("commit", "-q", "-m", "merge")
    for name, cmd in [("show-merge", ["show", "HEAD"]), ("log-c", ["log", "-p", "-c", "-1"]), ("log-cc", ["log", "-p", "--cc", "-2"])]:
        outs[name] = (git(*(cmd + ["--color=never"])), git(*(cmd + ["--color=always"])))
        if b"@@@" not in outs[name][0]:
            raise MachineryError("no combined diff in git %s" % name)
    shutil.rmtree(tmp, ignore_errors=True)
    return outs


def run_log(task):
    label, ov, outs = task
    opts = {k: v for k, v in ov.items() if not k.startswith("_")}
    if ov.get("_plain"):
        opts.setdefault("commit-style", "yellow")
    args = build_args(base_opts(opts, reserved=not ov.get("_plain")))
    drv = explore.get_driver()
    cid = drv.mkconfig(args)
    viols = []
    n = 0
    for name, (plain, col) in outs.items():
        a, b = drv.render(cid, [plain, col])
        n += 1
        if a.out != b.out:
            j = 0
            while j < min(len(a.out), len(b.out)) and a.out[j] == b.out[j]:
                j += 1
            v = Violation("colour-not-ignored:git-" + name, "git %s: output differs between "
                          "--color=never and --color=always input at byte %d" % (name, j),
                          col.split(b"\n")[:-1], None, a.out[max(0, j - 60):j + 80], b.out[max(0, j - 60):j + 80])
            v.args = args
            v.config_label = label
            viols.append(v)
    # (iii) raw element styles: coloured input lines come out byte-identical
    if not opts:
        rargs = build_args(base_opts({"commit-style": "raw", "file-style": "raw", "hunk-header-style": "raw",
                                      "commit-decoration-style": "none", "file-decoration-style": "none",
                                      "hunk-header-decoration-style": "none"}))
        rcid = drv.mkconfig(rargs)
        plain, col = outs["log"]
        r = drv.render1(rcid, col)
        outlines = r.out.split(b"\n")
        for line in col.split(b"\n"):
            if line.startswith((b"\x1b[33mcommit", b"\x1b[1mdiff", b"\x1b[1m---", b"\x1b[1m+++", b"\x1b[36m@@")):
                n += 1
                if line not in outlines:
                    v = Violation("raw-not-kept", "element styled `raw`: input line %r does not appear "
                                  "unchanged in the output" % line, col.split(b"\n")[:-1])
                    v.args = rargs
                    viols.append(v)
                    break
        drv.drop(rcid)
    drv.drop(cid)
    return {"label": label, "n": n, "violations": viols}


ASSUMPTIONS = [
    "producer: real git 2.39 `diff --no-index` / `log -p` / `show` with its default palette; files of "
    "<= n lines over 7 line contents (trailing blanks, tab indent and a CRLF line so that git's whitespace-error "
    "colouring occurs); older single-sequence added lines and ESC[0m resets derived by rewriting",
    "not demanded: equality for elements styled raw; lines git coloured with a user-changed "
    "color.diff.old/new (documented: needs git-minus-style / git-plus-style)",
    "moved lines: the plain default colours (31 / 32) are by definition not moved colours",
    "--color-only and diffstat lines are left out of the equality sweep: there delta passes lines (or "
    "their unhandled parts) through with the colours they carry, which is what C02/C04 require",
]


def main(tier):
    t0 = time.time()
    build.ensure_built()
    nlines = 2 if tier == "quick" else 3
    F = files(nlines)
    pairs = [(o, n) for o in F for n in F if o != n]
    FE = [()] + [(i,) for i in range(100, 100 + len(ESC_CONTENTS))] + \
        [(i, j) for i in (0, 100, 101, 102, 103) for j in (0, 100, 101, 102, 103) if i + j >= 100]
    pairs += [(o, n) for o in FE for n in FE if o != n]
    cap = 50 if tier == "quick" else 900
    deadline = t0 + cap
    step = max(1, len(pairs) // 64)
    produced = explore.pmap(produce, [pairs[i:i + step] for i in range(0, len(pairs), step)])
    cases = [c for chunk in produced for c in chunk]
    d = 1 if tier == "quick" else 2
    configs = deviations(DIMS, d)
    tasks = []
    for label, ov, k in configs:
        sub = cases if k <= 1 else cases[::7]
        if tier == "quick" and k == 1:
            sub = cases[::3]
        tasks.append((label, ov, sub, deadline))
    # split large tasks
    split = []
    for label, ov, sub, dl in tasks:
        for i in range(0, len(sub), 400):
            split.append((label, ov, sub[i:i + 400], dl))
    res = explore.pmap(run_equal, split)
    rends = renditions(tier)
    # input rendition -> (style it is mapped to, that style decoded, the rendition in delta's language)
    mapping = {"38;2;1;2;3": ("bold 163", (("i", 163), None, term.BOLD), "#010203"),
               "1;35": ("bold 160 19", (("i", 160), ("i", 19), term.BOLD), "bold purple"),
               "1;36": ("italic 161", (("i", 161), None, term.ITALIC), "bold cyan"),
               "38;5;200": ("162 ul", (("i", 162), None, term.UL), "200")}
    mres = explore.pmap(run_moved, [
        ("moved", {}, rends, None, deadline),
        ("moved,line-numbers", {"line-numbers": True}, rends[::3], None, deadline),
        ("moved,sbs", {"side-by-side": True, "width": "80"}, rends[::3], None, deadline),
        ("moved,true-color", {"true-color": "always"}, rends, None, deadline),
        ("moved,map-styles", {}, [r for r in rends if r[0] in mapping] + rends[:40], mapping, deadline),
        ("moved,inspect-raw-lines=false", {"inspect-raw-lines": "false"}, rends[::2], None, deadline),
        ("moved,partners", {"_partners": True}, rends[::4], None, deadline),
    ])
    outs = make_repo()
    lres = explore.pmap(run_log, [(label, ov, outs) for label, ov, k in configs if k <= 1])
    lres += explore.pmap(run_moved_syntax, [(deadline,)])
    n = 0
    differing = 0
    viols = []
    caps = []
    rejected = []
    for r in res:
        if "rejected" in r:
            rejected.append(r["label"])
            continue
        n += r["n"]
        differing += r["differing_inputs"]
        if r["capped"]:
            caps.append(r["label"])
        viols.extend(r["violations"])
    for r in mres + lres:
        n += r["n"]
        viols.extend(r["violations"])
    best = {}
    for v in viols:
        if v.klass not in best or len(v.history) < len(best[v.klass].history):
            best[v.klass] = v
    viols = sorted(best.values(), key=lambda v: v.klass)
    cov = {
        "evaluations": n, "distinct_nontrivial": differing + sum(r["distinct"] for r in mres),
        "rule": "evaluation = one (plain, coloured) input pair rendered by the real code under one mode, "
                "or one moved-line rendition; non-trivial = the coloured input differs from the plain one "
                "(%d) or a distinct rendition observed on a moved line (%d)"
                % (differing, sum(r["distinct"] for r in mres)),
        "samples": [{"old": file_text(cases[5][0]), "new": file_text(cases[5][1]),
                     "coloured_input": cases[5][3][0].decode("latin-1")}],
        "file_pairs": len(cases), "max_lines_per_side": nlines, "modes": len(configs),
        "config_deviation_bound": d, "renditions": len(rends), "modes_rejected": rejected,
        "caps_hit": caps, "exhaustive": not caps,
    }
    return report.finish(PROP, tier, "exploration", cov, viols, ASSUMPTIONS, t0, runner.seed())
