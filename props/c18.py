"""C18 - exit status and pager protocol: all output delivered, quits are silent.

E4 on the real binary (stdin mode, `delta a b`, `delta git ...`, `delta rg ...`), with stub
executables on a private PATH and an LD_PRELOAD write-fault shim:
 * faults: with N = number of write(2) calls on stdout in the fault-free run, for every k <= N the
   k-th and all later writes fail with EPIPE; and a stub pager that reads j rows and exits, for every
   j: delta must exit 0 with empty stderr;
 * status: differ results 0/1/2 with the real git; a wrapped command exiting 0,1,2,3,128,129,255 is
   passed through after the whole output was rendered;
 * selection: all 2^5 subsets of {--pager, delta.pager, DELTA_PAGER, BAT_PAGER, PAGER}, each naming
   its own recording stub; a stub called `less` with and without user arguments; --paging
   always / auto / never: the stub of the highest-priority source receives exactly the fault-free
   output, `less` gets --RAW-CONTROL-CHARS exactly when its arguments are delta's to choose, and
   the pager's exit marker exists when delta's exit is observed.
"""
import itertools
import os
import shutil
import stat
import subprocess
import time

import build
import explore
import producers
import report
import runner
from build import BUILD, MachineryError
from driver import base_env
from explore import Violation

PROP = "C18"


def work_dir():
    d = os.path.join(BUILD, "tmp", "c18_%d" % os.getpid())
    os.makedirs(d, exist_ok=True)
    return d


def write_exec(path, text):
    with open(path, "w") as f:
        f.write(text)
    os.chmod(path, os.stat(path).st_mode | stat.S_IXUSR | stat.S_IXGRP | stat.S_IXOTH)


PAGER_STUB = """#!/bin/sh
# recording pager stub: argv, stdin, exit marker
name=$(basename "$0")
if [ "$1" = "--version" ]; then echo "less 590 (stub)"; exit 0; fi
printf '%s\\n' "$@" > "$VERIF_REC_DIR/$name.argv"
if [ -n "$VERIF_PAGER_ROWS" ]; then
  head -n "$VERIF_PAGER_ROWS" > "$VERIF_REC_DIR/$name.stdin"
else
  cat > "$VERIF_REC_DIR/$name.stdin"
fi
sleep ${VERIF_PAGER_LINGER:-0.15}
: > "$VERIF_REC_DIR/$name.exit"
exit 0
"""

CMD_STUB = """#!/bin/sh
cat "$VERIF_STUB_OUTPUT"
exit ${VERIF_STUB_STATUS:-0}
"""


def make_stubs(d):
    sd = os.path.join(d, "bin")
    os.makedirs(sd, exist_ok=True)
    for name in ("pg_cli", "pg_cfg", "pg_delta", "pg_bat", "pg_env", "less"):
        write_exec(os.path.join(sd, name), PAGER_STUB)
    return sd


def sample_diff(nsec):
    kinds = ["modified", "rename_change", "added", "mode", "deleted", "binary"]
    data = b""
    for i in range(nsec):
        lines, _ = producers.section(kinds[i % len(kinds)], i, "minusplus")
        data += b"".join(l + b"\n" for l in lines)
    return data


def run(cmd, env, data=None, timeout=30):
    """-> (status, stdout, stderr); a run that does not end within the timeout is reported as status -9 with the
    marker HANG in stderr (a hang after the consumer went away is a violation of the property, not a machinery error)"""
    try:
        p = subprocess.run(cmd, env=env, input=data, stdin=None if data is not None else subprocess.DEVNULL,
                           stdout=subprocess.PIPE, stderr=subprocess.PIPE, timeout=timeout)
    except subprocess.TimeoutExpired as e:
        subprocess.run(["pkill", "-f", "VERIF_STUB_OUTPUT"], stdout=subprocess.DEVNULL, stderr=subprocess.DEVNULL)
        return -9, e.stdout or b"", b"HANG: no exit within %d s" % timeout
    return p.returncode, p.stdout, p.stderr


def run_observe(cmd, env, data, rec, names, timeout=30):
    """like run(), but delta's stdout and stderr are files, so that its exit is observed when it happens (with pipes the
    call would only return once the pager - which inherits them - has gone too). -> (status, stdout, stderr,
    {pager stub name: its exit marker existed when delta's exit was observed}, {name: it was started})"""
    import tempfile
    with tempfile.TemporaryFile() as fo, tempfile.TemporaryFile() as fe:
        p = subprocess.Popen(cmd, env=env, stdin=subprocess.PIPE if data is not None else subprocess.DEVNULL,
                             stdout=fo, stderr=fe)
        try:
            if data is not None:
                try:
                    p.stdin.write(data)
                    p.stdin.close()
                except BrokenPipeError:
                    pass
            st = p.wait(timeout=timeout)
        except subprocess.TimeoutExpired:
            p.kill()
            p.wait()
            return -9, b"", b"HANG: no exit within %d s" % timeout, {}, {}
        at_exit = {n: os.path.exists(os.path.join(rec, n + ".exit")) for n in names}
        t_end = time.time() + 10
        while time.time() < t_end:
            started = {n: os.path.exists(os.path.join(rec, n + ".argv")) for n in names}
            if all(os.path.exists(os.path.join(rec, n + ".exit")) for n in names if started[n]):
                break
            time.sleep(0.02)
        started = {n: os.path.exists(os.path.join(rec, n + ".argv")) for n in names}
        # (a pager started just before delta's exit: give its first lines of shell a moment)
        fo.seek(0)
        fe.seek(0)
        return st, fo.read(), fe.read(), at_exit, started


# ---------------------------------------------------------------------------------------------
# modes for the write-fault sweep

def modes(d, sd, size):
    data = sample_diff(size)
    diff_file = os.path.join(d, "stub_out_%d" % size)
    with open(diff_file, "wb") as f:
        f.write(data)
    rg_file = os.path.join(d, "stub_rg_%d" % size)
    with open(rg_file, "wb") as f:
        for i in range(size * 2):
            f.write(('{"type":"match","data":{"path":{"text":"a%d.rs"},"lines":{"text":"x main\\n"},"line_number":%d,'
                     '"absolute_offset":0,"submatches":[{"match":{"text":"main"},"start":2,"end":6}]}}\n'
                     % (i // 2, i + 1)).encode())
            # a context line far below: in ripgrep-style output a `--` separator is written between the two groups
            f.write(('{"type":"context","data":{"path":{"text":"a%d.rs"},"lines":{"text":"ctx\\n"},"line_number":%d,'
                     '"absolute_offset":0,"submatches":[]}}\n' % (i // 2, i + 50)).encode())
    fa, fb = os.path.join(d, "a_%d.txt" % size), os.path.join(d, "b_%d.txt" % size)
    with open(fa, "w") as f:
        f.write("".join("line %d\n" % i for i in range(size * 3)))
    with open(fb, "w") as f:
        f.write("".join("line %d%s\n" % (i, " changed" if i % 2 else "") for i in range(size * 3)))
    cmdbin = os.path.join(d, "cmdbin")
    os.makedirs(cmdbin, exist_ok=True)
    for name in ("git", "rg"):
        write_exec(os.path.join(cmdbin, name), CMD_STUB)
    base = ["--no-gitconfig", "--paging=never", "--detect-dark-light=never"]
    blame = b"".join(b"0123456%d (A U Thor 2020-01-01 00:00:00 +0000 %d) line %d\n" % (i % 3, i + 1, i)
                     for i in range(size * 3))
    stub_path = cmdbin + ":/usr/local/bin:/usr/bin:/bin"
    return [
        ("stdin", base, data, {}, 0),
        ("stdin-sbs", base + ["--side-by-side", "--width=60"], data, {}, 0),
        ("stdin-blame", base, blame, {"DELTA_VERIF_PARENT_ARGS": "git blame f.rs"}, 0),
        ("two-files", base + [fa, fb], None, {}, 1),
        ("wrap-git", base + ["git", "log", "-p"], None, {"PATH": stub_path, "VERIF_STUB_OUTPUT": diff_file}, 0),
        ("wrap-rg", base + ["rg", "main"], None, {"PATH": stub_path, "VERIF_STUB_OUTPUT": rg_file}, 0),
        # what delta writes when it is not rendering: the reader may go away just the same (`delta --show-config | head -1`)
        ("show-config", base + ["--show-config"], b"", {}, 0),
        ("version", ["--version"], b"", {}, 0),
        ("parse-ansi", base + ["--parse-ansi"], b"".join(b"\x1b[3%dmline %d\x1b[m\n" % (i % 8, i) for i in range(size * 3)), {}, 0),
        ("generate-completion", ["--generate-completion", "bash"], b"", {}, 0),
    ]


def fault_task(task):
    size, mode_index = task[:2]
    early = task[2] if len(task) > 2 else None    # big outputs: only the first write indexes
    d = work_dir()
    sd = make_stubs(d)
    shims = build.ensure_shims()
    name, args, data, extra, clean_status = modes(d, sd, size)[mode_index]
    env = base_env()
    env["DELTA_VERIF_PARENT_ARGS"] = "verif-none"
    env.update(extra)
    # fault-free run: count the writes
    cf = os.path.join(d, "count_%s_%d" % (name, size))
    e0 = dict(env)
    e0["LD_PRELOAD"] = os.path.join(shims, "faultwrite.so")
    e0["VERIF_FAULT_FD"] = "1"
    e0["VERIF_FAULT_COUNT_FILE"] = cf
    st, out, err = run([build.BIN] + args, e0, data)
    if st != clean_status or err:
        raise MachineryError("fault-free run of mode %s: status %d stderr %r" % (name, st, err[:200]))
    N = int(open(cf).read().strip())
    viols = []
    n = 0
    for k in (range(1, N + 1) if early is None else [k_ for k_ in early if k_ <= N]):
        e = dict(e0)
        e["VERIF_FAULT_K"] = str(k)
        st, o, er = run([build.BIN] + args, e, data)
        n += 1
        if st != 0 or er:
            v = Violation("broken-pipe-not-silent:" + name,
                          "mode %s: write %d of %d on stdout fails with EPIPE: exit status %d, stderr %r"
                          % (name, k, N, st, er[:200]), None, k, [0, b""], [st, er[:200]],
                          {"mode": name, "k": k, "N": N, "args": args})
            v.args = args
            viols.append(v)
            break
        if not out.startswith(o):
            v = Violation("output-changed-before-fault:" + name, "mode %s, fault at write %d: output written before "
                          "the fault is not a prefix of the fault-free output" % (name, k))
            v.args = args
            viols.append(v)
            break
    return {"n": n, "N": N, "mode": name, "violations": viols}


def pager_quit_task(task):
    size, mode_index = task[:2]
    early = task[2] if len(task) > 2 else None
    d = work_dir()
    sd = make_stubs(d)
    name, args, data, extra, clean_status = modes(d, sd, size)[mode_index]
    args = [a for a in args if a != "--paging=never"]
    rec = os.path.join(d, "rec_%s_%d" % (name, size))
    env = base_env()
    env["DELTA_VERIF_PARENT_ARGS"] = "verif-none"
    env.update(extra)
    env["PATH"] = env.get("PATH", "") + ":" + sd
    env["VERIF_REC_DIR"] = rec
    env["VERIF_PAGER_LINGER"] = "0"
    full_args = ["--paging=always", "--pager=" + os.path.join(sd, "pg_cli")] + args
    os.makedirs(rec, exist_ok=True)
    st, out, err = run([build.BIN] + full_args, env, data)
    got = open(os.path.join(rec, "pg_cli.stdin"), "rb").read()
    rows = got.count(b"\n")
    viols = []
    n = 0
    # what the pager receives is exactly what --paging=never writes to stdout, and nothing bypasses the pager
    st0, out0, err0 = run([build.BIN] + ["--paging=never"] + args, env, data)
    n += 2
    if early is None and (got != out0 or out != b""):
        v = Violation("pager-input-differs:" + name, "mode %s: the pager received %d bytes, --paging=never writes %d bytes; "
                      "%d bytes went to delta's own stdout instead of the pager" % (name, len(got), len(out0), len(out)),
                      None, None, out0[:300], got[:300])
        v.args = full_args
        viols.append(v)
    for j in (range(0, rows + 1) if early is None else [j_ for j_ in early if j_ <= rows]):
        shutil.rmtree(rec, ignore_errors=True)
        os.makedirs(rec)
        e = dict(env)
        e["VERIF_PAGER_ROWS"] = str(j)
        st, o, er = run([build.BIN] + full_args, e, data)
        n += 1
        want = clean_status if j >= rows else None
        if er or (st != 0 and st != clean_status):
            v = Violation("pager-quit-not-silent:" + name, "mode %s: pager reads %d of %d rows and exits: delta exits "
                          "%d with stderr %r" % (name, j, rows, st, er[:200]), None, j, None, [st, er[:200]])
            v.args = full_args
            viols.append(v)
            break
    return {"n": n, "rows": rows, "mode": name, "violations": viols}


# ---------------------------------------------------------------------------------------------
# option values that delta looks at late; a wrapped command that writes much to its stderr; pager arguments

BLAME_IN = b"".join(b"0123456%d (A U Thor 2020-01-01 00:00:00 +0000 %d) line %d\n" % (i % 3, i + 1, i) for i in range(4))
LATE_CASES = [
    # (label, args, input, caller): whatever delta makes of the value, it does not exit while its pager is running
    ("blame-palette-5-digit-hex", ["--blame-palette=#00000 #222222"], BLAME_IN, "git blame f.rs"),
    ("blame-palette-word", ["--blame-palette=nosuchcolour"], BLAME_IN, "git blame f.rs"),
    ("blame-timestamp-output-format", ["--blame-timestamp-output-format=%Q"], BLAME_IN, "git blame f.rs"),
    ("blame-format-width", ["--blame-format={author:<99999999999999999999} {commit}"], BLAME_IN, "git blame f.rs"),
    ("blame-separator-format", ["--blame-separator-format={n:~}"], BLAME_IN, "git blame f.rs"),
    ("blame-separator-every", ["--blame-separator-format={n:every-x}"], BLAME_IN, "git blame f.rs"),
    ("line-numbers-left-format", ["--line-numbers", "--line-numbers-left-format={nm:^99999999999999999999}"], None, None),
    ("tabs-huge", ["--tabs=18446744073709551615"], None, None),
    ("valid", ["--blame-palette=#000000 #222222"], BLAME_IN, "git blame f.rs"),
]


def late_exit_task(case):
    label, args, data, caller = case
    d = work_dir()
    sd = make_stubs(d)
    rec = os.path.join(d, "rec_late_" + label)
    shutil.rmtree(rec, ignore_errors=True)
    os.makedirs(rec)
    env = base_env()
    env["DELTA_VERIF_PARENT_ARGS"] = caller or "verif-none"
    env["PATH"] = sd + ":" + env["PATH"]
    env["VERIF_REC_DIR"] = rec
    env["VERIF_PAGER_LINGER"] = "0.5"
    full = ["--no-gitconfig", "--paging=always", "--detect-dark-light=never", "--pager=pg_cli"] + args
    st, out, err, at_exit, started_ = run_observe([build.BIN] + full, env,
                                                  data if data is not None else sample_diff(1) + b"\tx\n", rec, ["pg_cli"])
    started = started_.get("pg_cli", False)
    exited = at_exit.get("pg_cli", False)
    viols = []
    if st == 101 or st < 0 or b"panicked" in err:
        pass        # C03's business
    elif started and not exited:
        v = Violation("exit-before-pager:late-rejection", "%s: delta exits with status %d (%r) while the pager it started is "
                      "still running" % (label, st, err[:120]))
        v.args = full
        v.caller = caller.split() if caller else None
        viols.append(v)
    return {"n": 1, "violations": viols, "started": started}


def pager_args_task(case):
    """the pager command of every source is started with the arguments given there (a stub called other than `less`)"""
    source, value, want = case
    d = work_dir()
    sd = make_stubs(d)
    rec = os.path.join(d, "rec_pargs")
    shutil.rmtree(rec, ignore_errors=True)
    os.makedirs(rec)
    env = base_env()
    env["DELTA_VERIF_PARENT_ARGS"] = "verif-none"
    env["PATH"] = sd + ":" + env["PATH"]
    env["VERIF_REC_DIR"] = rec
    args = ["--no-gitconfig", "--paging=always", "--detect-dark-light=never"]
    if source == "cli":
        args.append("--pager=" + value)
    else:
        env[source] = value
    st, out, err = run([build.BIN] + args, env, sample_diff(1))
    name = value.split()[0]
    p = os.path.join(rec, name + ".argv")
    viols = []
    if st != 0 or err or not os.path.exists(p):
        viols.append(Violation("pager-run-failed", "%s=%r: exit %d stderr %r" % (source, value, st, err[:200])))
    else:
        argv = [a for a in open(p).read().split("\n") if a]
        if argv != want:
            viols.append(Violation("pager-arguments-lost:" + source, "%s=%r: the pager was started with the arguments %r, "
                                   "given were %r" % (source, value, argv, want)))
    for v in viols:
        v.args = args
        v.env = {source: value} if source != "cli" else None
    return {"n": 1, "violations": viols}


STDERR_STUB = """#!/bin/sh
# a command with much to say on stderr, before and after its output
i=0
while [ $i -lt ${VERIF_STUB_STDERR_LINES:-0} ]; do echo "warning: line $i of the messages of a wrapped command, long enough to fill a pipe quickly" >&2; i=$((i+1)); done
cat "$VERIF_STUB_OUTPUT"
exit ${VERIF_STUB_STATUS:-0}
"""


def stderr_flood_task(case):
    """the wrapped command writes more to its stderr than a pipe holds: delta still ends, passes the status through and
    relays the messages"""
    nlines, status = case
    d = work_dir()
    cmdbin = os.path.join(d, "cmdbin_flood")
    os.makedirs(cmdbin, exist_ok=True)
    for name in ("git", "rg"):
        write_exec(os.path.join(cmdbin, name), STDERR_STUB)
    data = sample_diff(2)
    f = os.path.join(d, "flood_out")
    open(f, "wb").write(data)
    env = base_env()
    env["DELTA_VERIF_PARENT_ARGS"] = "verif-none"
    env["PATH"] = cmdbin + ":" + env["PATH"]
    env["VERIF_STUB_OUTPUT"] = f
    env["VERIF_STUB_STATUS"] = str(status)
    env["VERIF_STUB_STDERR_LINES"] = str(nlines)
    base = ["--no-gitconfig", "--paging=never", "--detect-dark-light=never"]
    ref = run([build.BIN] + base, env, data)[1]
    viols = []
    n = 0
    for cmd in (["git", "log", "-p"], ["rg", "x"]):
        st, out, err = run([build.BIN] + base + cmd, env, timeout=20)
        n += 1
        msg = None
        if st == -9:
            msg = "delta does not end (%s)" % err[:60]
        elif st != status:
            msg = "delta exits %d, the command exited %d" % (st, status)
        elif cmd[0] == "git" and out != ref:
            msg = "the output is incomplete (%d of %d bytes)" % (len(out), len(ref))
        elif err.count(b"\n") != nlines:
            msg = "%d of %d message lines relayed" % (err.count(b"\n"), nlines)
        if msg:
            v = Violation("wrapped-stderr:" + cmd[0], "delta %s where the command writes %d lines (%d KiB) to stderr and exits %d: %s"
                          % (" ".join(cmd), nlines, nlines * 97 // 1024, status, msg))
            v.args = base + cmd
            viols.append(v)
    return {"n": n, "violations": viols}


# ---------------------------------------------------------------------------------------------
# pager selection

SOURCES = ["cli", "cfg", "delta", "bat", "env"]
STUB_OF = {"cli": "pg_cli", "cfg": "pg_cfg", "delta": "pg_delta", "bat": "pg_bat", "env": "pg_env"}


def selection_task(subset):
    d = work_dir()
    sd = make_stubs(d)
    rec = os.path.join(d, "rec_sel")
    shutil.rmtree(rec, ignore_errors=True)
    os.makedirs(rec)
    env = base_env()
    env["DELTA_VERIF_PARENT_ARGS"] = "verif-none"
    env["PATH"] = sd + ":" + env["PATH"]
    env["VERIF_REC_DIR"] = rec
    args = ["--paging=always", "--detect-dark-light=never"]
    cfg = os.path.join(d, "sel.gitconfig")
    with open(cfg, "w") as f:
        f.write("[delta]\n" + ("\tpager = pg_cfg\n" if "cfg" in subset else ""))
    args.append("--config=" + cfg)
    if "cli" in subset:
        args.append("--pager=pg_cli")
    if "delta" in subset:
        env["DELTA_PAGER"] = "pg_delta"
    if "bat" in subset:
        env["BAT_PAGER"] = "pg_bat"
    if "env" in subset:
        env["PAGER"] = "pg_env"
    data = sample_diff(2)
    ref = run([build.BIN, "--paging=never", "--detect-dark-light=never", "--config=" + cfg], env, data)[1]
    st, out, err, marker_at_exit, _ = run_observe([build.BIN] + args, env, data, rec, list(STUB_OF.values()) + ["less"])
    got = [n for n in list(STUB_OF.values()) + ["less"] if os.path.exists(os.path.join(rec, n + ".argv"))]
    if "cli" in subset:
        want = ["pg_cli"]
    elif "cfg" in subset:
        want = ["pg_cfg"]
    elif "delta" in subset:
        want = ["pg_delta"]
    elif "bat" in subset or "env" in subset:
        want = [STUB_OF[s] for s in ("bat", "env") if s in subset]      # order between the two not claimed
    else:
        want = ["less"]
    viols = []
    label = "+".join(sorted(subset)) or "none"
    if st != 0 or err:
        viols.append(Violation("pager-run-failed", "sources %s: exit %d stderr %r" % (label, st, err[:200])))
    elif len(got) != 1 or got[0] not in want:
        viols.append(Violation("wrong-pager", "sources %s: pager(s) started %r, expected %s" % (label, got, want)))
    else:
        rcv = open(os.path.join(rec, got[0] + ".stdin"), "rb").read()
        if rcv != ref or out != b"":
            viols.append(Violation("pager-did-not-receive-output", "sources %s: the pager received %d bytes, the "
                                   "output is %d bytes; %d bytes went to stdout" % (label, len(rcv), len(ref), len(out))))
        elif not marker_at_exit[got[0]]:
            viols.append(Violation("exit-before-pager", "sources %s: delta exited before the pager did" % label))
        if got[0] == "less":
            argv = open(os.path.join(rec, "less.argv")).read().split("\n")
            if "--RAW-CONTROL-CHARS" not in argv:
                viols.append(Violation("less-without-R", "less started by default without --RAW-CONTROL-CHARS: %r" % argv))
    for v in viols:
        v.args = args
        v.env = {k: env[k] for k in ("DELTA_PAGER", "BAT_PAGER", "PAGER") if k in env}
    return {"n": 1, "violations": viols, "label": label}


def less_args_task(case):
    """a stub called `less`: --RAW-CONTROL-CHARS exactly when its arguments are delta's to choose"""
    source, value, expect_R = case
    d = work_dir()
    sd = make_stubs(d)
    rec = os.path.join(d, "rec_less")
    shutil.rmtree(rec, ignore_errors=True)
    os.makedirs(rec)
    env = base_env()
    env["DELTA_VERIF_PARENT_ARGS"] = "verif-none"
    env["PATH"] = sd + ":" + env["PATH"]
    env["VERIF_REC_DIR"] = rec
    args = ["--no-gitconfig", "--paging=always", "--detect-dark-light=never"]
    # (`less` named with its directory is less all the same)
    value = value.replace("@SD@", sd)
    if source == "cli":
        args.append("--pager=" + value)
    elif source == "DELTA_PAGER":
        env["DELTA_PAGER"] = value
    elif source == "PAGER":
        env["PAGER"] = value
    elif source == "BAT_PAGER":
        env["BAT_PAGER"] = value
    st, out, err = run([build.BIN] + args, env, sample_diff(1))
    viols = []
    p = os.path.join(rec, "less.argv")
    if st != 0 or err or not os.path.exists(p):
        viols.append(Violation("pager-run-failed", "%s=%r: exit %d stderr %r" % (source, value, st, err[:200])))
    else:
        argv = [a for a in open(p).read().split("\n") if a]
        has = "--RAW-CONTROL-CHARS" in argv or "-R" in argv
        if has != expect_R:
            viols.append(Violation("less-args:" + source, "%s=%r: less was started with %r; --RAW-CONTROL-CHARS expected: %s"
                                   % (source, value, argv, expect_R)))
        if not expect_R and argv != value.split()[1:]:
            viols.append(Violation("less-args-changed:" + source, "%s=%r: user arguments not passed as given: %r"
                                   % (source, value, argv)))
    for v in viols:
        v.args = args
    return {"n": 1, "violations": viols}


def paging_mode_task(case):
    mode, pty = case
    d = work_dir()
    sd = make_stubs(d)
    rec = os.path.join(d, "rec_mode")
    shutil.rmtree(rec, ignore_errors=True)
    os.makedirs(rec)
    env = {"PATH": sd + ":/usr/local/bin:/usr/bin:/bin", "VERIF_REC_DIR": rec, "DELTA_PAGER": "pg_delta"}
    from driver import run_cli
    args = ["--no-gitconfig", "--paging=" + mode, "--detect-dark-light=never"]
    st, out, err = run_cli(args, sample_diff(1), env=env, pty=pty)
    used = os.path.exists(os.path.join(rec, "pg_delta.argv"))
    # auto = start the pager and let it quit if the output fits one screen (whatever stdout is)
    want = mode in ("always", "auto")
    viols = []
    if st != 0 or used != want:
        v = Violation("paging-mode", "--paging=%s with stdout %s: pager %s (exit %d, stderr %r)"
                      % (mode, "a terminal" if pty else "a pipe", "used" if used else "not used", st, err[:100]))
        v.args = args
        viols.append(v)
    return {"n": 1, "violations": viols}


def status_task(case):
    kind, val = case
    d = work_dir()
    sd = make_stubs(d)
    env = base_env()
    env["DELTA_VERIF_PARENT_ARGS"] = "verif-none"
    base = ["--no-gitconfig", "--paging=never", "--detect-dark-light=never"]
    viols = []
    if kind == "differ":
        fa, fb = os.path.join(d, "s_a.txt"), os.path.join(d, "s_b.txt")
        open(fa, "w").write("x\ny\n")
        open(fb, "w").write("x\ny\n" if val == 0 else "x\nz\n")
        args = base + [fa, fb if val != 2 else os.path.join(d, "does-not-exist")]
        st, out, err = run([build.BIN] + args, env)
        # reference: the differ's own status for the same operands
        gst = subprocess.run(["git", "diff", "--no-index", "--"] + args[-2:], env=env, stdout=subprocess.PIPE,
                             stderr=subprocess.PIPE).returncode
        ok = (st == gst) and ((gst == val) if val < 2 else gst >= 1)
        if val == 1 and b"z" not in out:
            ok = False
        if not ok:
            v = Violation("differ-status", "delta a b with %s: exit %d, the differ itself exits %d; %d bytes of output"
                          % ({0: "equal files", 1: "different files", 2: "a missing file"}[val], st,
                             gst, len(out)))
            v.args = args
            viols.append(v)
    else:
        cmdbin = os.path.join(d, "cmdbin")
        os.makedirs(cmdbin, exist_ok=True)
        for name in ("git", "rg"):
            write_exec(os.path.join(cmdbin, name), CMD_STUB)
        data = sample_diff(2)
        f = os.path.join(d, "status_out")
        open(f, "wb").write(data)
        env["PATH"] = cmdbin + ":" + env["PATH"]
        env["VERIF_STUB_OUTPUT"] = f
        env["VERIF_STUB_STATUS"] = str(val)
        ref = run([build.BIN] + base, env, data)[1]
        for cmd in (["git", "log", "-p"], ["rg", "x"]):
            st, out, err = run([build.BIN] + base + cmd, env)
            want_out = ref if cmd[0] == "git" else None
            if st != val or (want_out is not None and out != want_out):
                v = Violation("wrapped-status:" + cmd[0], "delta %s where the command exits %d: delta exits %d; output "
                              "complete: %s" % (" ".join(cmd), val, st, out == want_out))
                v.args = base + cmd
                viols.append(v)
    return {"n": 1, "violations": viols}


ASSUMPTIONS = [
    "write faults are injected by an LD_PRELOAD shim on write/writev of fd 1 (EPIPE from the k-th call on); "
    "pager quits are real: a stub pager reads j rows and exits",
    "BAT_PAGER vs PAGER: when both are set either may be chosen (the statement groups them)",
    "not covered: the listing subcommands that start a pager of their own (--show-syntax-themes, --show-colors, "
    "--list-languages); a real interactive less (no terminal here)",
]


def main(tier):
    t0 = time.time()
    build.ensure_built()
    build.ensure_shims()
    sizes = [1, 3] if tier == "quick" else [1, 3, 6, 12]
    ftasks = [(s, m) for s in sizes for m in range(6)] + [(sizes[0], m) for m in (6, 7, 9)] + [(s, 8) for s in sizes]
    fres = explore.pmap(fault_task, ftasks)
    qres = explore.pmap(pager_quit_task, [(s, m) for s in sizes for m in (0, 1, 3, 4, 5)])
    # outputs far larger than a pipe buffer: the consumer disappears while the child process (git, rg, the differ)
    # still has output to write, so the child is killed by SIGPIPE; first write indexes / pager rows only
    BIG = 3000
    early = [1, 2, 3, 5, 8, 13, 50]
    fres += explore.pmap(fault_task, [(BIG, m, early) for m in range(6)])
    qres += explore.pmap(pager_quit_task, [(BIG, m, [0, 1, 2, 10]) for m in (0, 3, 4, 5)])
    subsets = [frozenset(c) for r in range(6) for c in itertools.combinations(SOURCES, r)]
    sres = explore.pmap(selection_task, subsets)
    lres = explore.pmap(less_args_task, [
        ("default", "", True), ("PAGER", "less", True), ("PAGER", "less -F -X", True), ("BAT_PAGER", "less -F", True),
        ("DELTA_PAGER", "less -F -X", False), ("cli", "less -K", False), ("DELTA_PAGER", "less", True),
        ("PAGER", "@SD@/less", True), ("PAGER", "@SD@/less -F -X", True), ("BAT_PAGER", "@SD@/less -F", True),
        ("BAT_PAGER", "@SD@/less", True), ("DELTA_PAGER", "@SD@/less", True), ("cli", "@SD@/less", True),
        ("DELTA_PAGER", "@SD@/less -F -X", False), ("cli", "@SD@/less -K", False),
    ])
    mres = explore.pmap(paging_mode_task, [(m, p) for m in ("always", "auto", "never") for p in (None, (24, 80))])
    stres = explore.pmap(status_task, [("differ", 0), ("differ", 1), ("differ", 2)] +
                         [("wrapped", s) for s in (0, 1, 2, 3, 128, 129, 255)])
    late = explore.pmap(late_exit_task, LATE_CASES)
    if not any(r["started"] for r in late):
        raise MachineryError("late-exit cases: no pager was ever started")
    pargs = explore.pmap(pager_args_task, [
        ("cli", "pg_cli --flag 'a b' -x", ["--flag", "a b", "-x"]),
        ("DELTA_PAGER", "pg_delta --flag 'a b' -x", ["--flag", "a b", "-x"]),
        ("BAT_PAGER", "pg_bat --flag 'a b' -x", ["--flag", "a b", "-x"]),
        ("PAGER", "pg_env --flag 'a b' -x", ["--flag", "a b", "-x"]),
        ("PAGER", "pg_env", []),
    ])
    # 0, 1, and far more lines than the 64 KiB of a pipe (97 bytes each)
    flood = explore.pmap(stderr_flood_task, [(nl, stt) for nl in (0, 1, 700, 3000) for stt in (0, 2)])
    viols = []
    n = 0
    for r in fres + qres + sres + lres + mres + stres + late + pargs + flood:
        n += r["n"]
        viols.extend(r["violations"])
    best = {}
    for v in viols:
        best.setdefault(v.klass, v)
    viols = sorted(best.values(), key=lambda v: v.klass)
    shutil.rmtree(os.path.join(BUILD, "tmp"), ignore_errors=True)
    cov = {
        "evaluations": n,
        "distinct_nontrivial": sum(r["n"] for r in fres) + sum(r["n"] for r in qres),
        "rule": "evaluation = one run of the real binary; non-trivial = runs in which the consumer really disappears "
                "(every write index k<=N of 6 modes, every pager-quit row j)",
        "samples": [{"mode": r["mode"], "writes_on_stdout": r["N"]} for r in fres[:6]] +
                   [{"mode": r["mode"], "pager_rows": r["rows"]} for r in qres[:2]],
        "write_fault_runs": sum(r["n"] for r in fres), "pager_quit_runs": sum(r["n"] for r in qres),
        "late_rejection_cases": len(LATE_CASES), "pager_argument_cases": len(pargs),
        "stderr_flood_runs": sum(r["n"] for r in flood),
        "pager_selection_environments": len(subsets), "wrapped_statuses": [0, 1, 2, 3, 128, 129, 255],
        "input_sizes": sizes, "big_input_size_sections": BIG, "big_input_fault_indexes": early, "exhaustive": True,
    }
    return report.finish(PROP, tier, "fault_enumeration", cov, viols, ASSUMPTIONS, t0, runner.seed())
