"""C16 - grep output keeps every hit's path, line number and code.

E1 over grep result streams (state of the real machine = Grep(path, line type, number) + pending
output), with a timing-agnostic FIFO reference: every hit yields one row group showing the same
path (inline, or the header row it sits under), the same number, the same code (tabs expanded),
in order; for `rg --json` the cells in match style are exactly the reported submatches. Three
encodings: git's coloured form and rg --json (exact), plain text (restricted to the unambiguous
shapes the statement names). Plus an E2 sweep of single hits over the full product
kind x path x number x code, and CLI conformance through stub `git` / `rg` executables.
"""
import itertools
import json
import os
import re
import stat
import time

import build
import explore
import obs
import term
from build import BUILD
from explore import Problem, ViolationError, Violation
from lattice import classify_style, base_opts, build_args

PROP = "C16"
TABS = 4

PATHS_FULL = ["a.rs", "src/a-b.rs", "x-7-y.rs", "d.d/f.c", "Makefile", "a b.rs", "v1.2/x.c",
              "pkg-1.2-3-rc/src/main.rs", "v2.0=1=x/y.c", "lib-0.9:2/z.py", "app.properties", "style.css"]
PATHS_SMALL = ["a.rs", "src/a-b.rs", "x-7-y.rs", "Makefile", "pkg-1.2-3-rc/src/main.rs"]
NUMBERS_FULL = [None, 1, 7, 123]
NUMBERS_SMALL = [None, 7, 123]
CODES_FULL = ["x", "a:b", "foo-7-bar", "", "\tind", "é漢", "long " * 12 + "end", "main() main",
              "  \t  \tint main = 2;", "\t\tmain", " \tmain", "odds = arr[1:10:2]", "at 12:30:00 main", "   ",
              # code that begins with, or contains, a dotted name followed by one separator (no number): covered by the
              # plain-text guarantee
              "server.port=8080", ".btn-primary { color: red }", "-include config", "main.o: main.c", "=== section"]
CODES_SMALL = ["x main", "a:b-3-c", "", "\tmain é", "    \t    \tint main = 2;"]
KINDS = [("match", ":"), ("context", "-"), ("header", "=")]


class Hit(object):
    __slots__ = ("kind", "sep", "path", "number", "code")

    def __init__(self, kind, sep, path, number, code):
        self.kind, self.sep, self.path, self.number, self.code = kind, sep, path, number, code

    def key(self):
        return (self.kind, self.path, self.number, self.code)

    def submatches(self):
        """byte ranges of every 'main' in the code (what the tool would report as matches)"""
        b = self.code.encode("utf-8")
        out = []
        i = b.find(b"main")
        while i >= 0:
            out.append((i, i + 4))
            i = b.find(b"main", i + 4)
        return out

    def plain(self):
        n = "" if self.number is None else "%d%s" % (self.number, self.sep)
        return ("%s%s%s%s" % (self.path, self.sep, n, self.code)).encode("utf-8")

    def coloured(self):
        e = "\x1b"
        sep = "%s[36m%s%s[m" % (e, self.sep, e)
        n = "" if self.number is None else "%s[32m%d%s[m%s" % (e, self.number, e, sep)
        code = self.code
        if self.kind == "match":
            code = code.replace("main", "%s[1;31mmain%s[m" % (e, e))
        return ("%s[35m%s%s[m%s%s%s" % (e, self.path, e, sep, n, code)).encode("utf-8")

    def rgjson(self):
        typ = "match" if self.kind == "match" else "context"
        d = {"type": typ, "data": {"path": {"text": self.path}, "lines": {"text": self.code + "\n"},
                                   "line_number": self.number, "absolute_offset": 0,
                                   "submatches": [{"match": {"text": "main"}, "start": a, "end": b}
                                                  for a, b in (self.submatches() if typ == "match" else [])]}}
        return json.dumps(d, ensure_ascii=False).encode("utf-8")


def expand(s):
    return s.replace("\t", " " * TABS)


def parse_rows(out):
    """-> list of ('header', path) | ('hit', path|None, number|None, code, match_text_cells) | ('sep',)"""
    res = []
    for row in term.decode(out):
        runs = [(t, classify_style(st)) for t, st in row.runs if t != ""]
        classes = [c for _, c in runs]
        text = row.text
        if not text.strip():
            res.append(("blank",))
            continue
        if text.strip() == "--":
            res.append(("sep",))
            continue
        codecls = {"grep_match_line", "grep_match_word", "grep_context", "hunk"}
        has_code = any(c in codecls for c in classes)
        has_ln = "grep_ln" in classes
        has_file = "grep_file" in classes or "grep_header_file" in classes or "hunk_file" in classes
        deco_only = all(c in ("grep_header_deco", "hunk_deco", None) for c in classes) and \
            any(c in ("grep_header_deco", "hunk_deco") for c in classes) and not text.strip("─┐┘│ ")
        if deco_only:
            continue
        path = "".join(t for t, c in runs if c in ("grep_file", "grep_header_file")) or None
        if path is None:
            # function-context header rows use the hunk-header file style; a navigate label
            # painted in the same style is not part of the path
            path = "".join(t for t, c in runs if c == "hunk_file").replace("•", "").strip() or None
        number = "".join(t for t, c in runs if c == "grep_ln").strip() or None
        boxed = any(c in ("grep_header_deco",) for c in classes)
        if has_file and not has_code and not has_ln and boxed:
            res.append(("header", path))
            continue
        code = "".join(t for t, c in runs if c in codecls)
        mcells = "".join(t for t, c in runs if c == "grep_match_word")
        # navigate marker / separators are in unclassified runs
        res.append(("hit", path, number, code, mcells, [t for t, c in runs if c == "grep_match_word"]))
    return res


class Streams(Problem):
    max_depth = 64

    def __init__(self, encoding, hits, depth, ocfg):
        self.encoding = encoding
        self.hits = hits
        self.depth = depth
        self.ocfg = ocfg

    def line_of(self, h):
        return {"plain": h.plain, "coloured": h.coloured, "json": h.rgjson}[self.encoding]()

    # producer state: (n hits so far, last path (for json begin/end framing))
    def initial(self):
        return ((0, None, False), ((), None, b"", None))

    def successors(self, ps):
        n, last, insep = ps
        if n >= self.depth:
            return []
        out = []
        for i, h in enumerate(self.hits):
            if self.encoding == "json" and h.kind == "header":
                continue
            out.append((self.line_of(h), (n + 1, h.path, False), "hit:%d" % i))
        if n > 0 and not insep and self.encoding != "json":
            out.append((b"--", (n, last, True), "sep"))
        if self.encoding == "json" and n > 0 and not insep:
            out.append((json.dumps({"type": "end", "data": {"path": {"text": last}, "binary_offset": None,
                                                          "stats": {}}}).encode(), (n, last, True), "frame"))
            out.append((json.dumps({"type": "begin", "data": {"path": {"text": last or "a.rs"}}}).encode(),
                        (n, last, True), "frame"))
        return out

    def _consume(self, model, out, at_eof=False):
        q, cur_header, partial, prev_path = model
        q = list(q)
        # classic rows are written in two parts (path and number at once, the code with the next
        # line): only complete output lines are parsed, the rest is carried to the next step
        data = partial + out
        if at_eof:
            complete, partial = data, b""
        else:
            k = data.rfind(b"\n")
            complete, partial = data[:k + 1], data[k + 1:]
        for item in parse_rows(complete):
            if item[0] == "header":
                cur_header = item[1]
                continue
            if item[0] == "sep":
                continue
            if item[0] == "blank":
                # ripgrep-style output: a hit without number whose code is empty or blank is a blank row (which
                # cannot be told from the blank row that separates files: either may stand for the hit)
                if q and q[0].number is None and expand(q[0].code).strip(" ") == "":
                    q.pop(0)
                continue
            _, path, number, code, mcells, mruns = item
            if not q:
                raise ViolationError("extra-row", "a grep row %r/%r/%r with no pending hit" % (path, number, code),
                                     observed=[path, number, code])
            h = q.pop(0)
            first_of_file, prev_path = (prev_path != h.path), h.path
            shown_path = path if path is not None else cur_header
            if h.kind == "header" and path is None:
                shown_path = h.path       # function-context header rows are not required to repeat the path
            if shown_path != h.path:
                klass = "wrong-path"
                if self.encoding == "plain" and h.sep in "-=" and first_of_file and re.search(r"\.\w+[:=-]", h.code):
                    # the first line of a file's group is a context / header line whose code holds `name.ext<separator>`
                    # (nothing before it says where the path ends): see known_findings.json
                    klass = "wrong-path:dotted-name-in-code-of-leading-context-line"
                raise ViolationError(klass, "hit of %r shown under path %r" % (h.path, shown_path),
                                     expected=h.path, observed=shown_path)
            want_n = None if h.number is None else str(h.number)
            if want_n is None and number is not None:
                raise ViolationError("invented-number", "hit %s (no line number in the input) shown with number %r"
                                     % (h.path, number), expected=None, observed=number)
            if want_n is not None and number != want_n:
                raise ViolationError("wrong-number", "hit %s:%s shown with number %r" % (h.path, want_n, number),
                                     expected=want_n, observed=number)
            if code.rstrip(" ") != expand(h.code).rstrip(" "):
                raise ViolationError("wrong-code", "code %r shown as %r" % (expand(h.code), code),
                                     expected=expand(h.code), observed=code)
            if self.encoding in ("json", "coloured") and h.kind == "match":
                n_m = len(h.submatches())
                if mruns != ["main"] * n_m and not (n_m == 2 and mruns == ["main", "main"]):
                    # adjacent matches would merge into one run; the alphabet has none
                    raise ViolationError("wrong-submatch", "match cells %r, the tool reported %d x 'main' in %r"
                                         % (mruns, n_m, h.code), expected=["main"] * n_m, observed=mruns)
        return (tuple(q), cur_header, partial, prev_path)

    def step(self, model, line, kind, out, ps):
        q, cur, partial, prev = model
        if kind.startswith("hit:"):
            q = q + (self.hits[int(kind[4:])],)
        if kind == "sep":
            pass
        return self._consume((q, cur, partial, prev), out)

    def eof(self, model, out, ps):
        q, cur, partial, prev = self._consume(model, out, at_eof=True)
        if q:
            raise ViolationError("dropped-hit", "%d hit(s) never shown (first: %s:%s:%r)"
                                 % (len(q), q[0].path, q[0].number, q[0].code), expected=q[0].code)

    def model_key(self, model):
        q, cur, partial, prev = model
        return (tuple(h.key() for h in q), cur, partial, prev)


def make_hits(paths, numbers, codes, kinds=KINDS):
    # (a function-context header line `path=code` always carries the text of the line that names the function: a
    # header with blank code does not occur)
    return [Hit(k, s, p, n, c) for (k, s) in kinds for p in paths for n in numbers for c in codes
            if not (k == "header" and c.strip() == "")]


def ambiguous_plain(h):
    """outside the statement's guarantee for plain-text grep output?"""
    base = h.path.rsplit("/", 1)[-1]
    has_ext = "." in base
    if not has_ext and any(ch in h.path for ch in ":-="):
        return True
    # code containing name.ext followed by sep-number-sep look-alike
    import re
    if re.search(r"\w\.\w+[:=-]\d+[:=-]", h.code):
        return True
    # the same look-alike inside the *path* (a directory like pkg-1.2-3-rc/) is resolved by the real
    # `:number:` that follows the file name; without a line number nothing can resolve it
    # a ':' inside a path cannot be told from the separator that ends it (delta documents: "colons not
    # allowed" in plain-text file names)
    if ":" in h.path:
        return True
    if h.number is None and re.search(r"\w\.\w+[:=-]", h.path):
        return True
    # a path without extension and no line number cannot be told from prose
    return False


def run_task(task):
    label, enc, caller, ov, hits, depth, deadline = task
    opts = dict(ov)
    opts["tabs"] = str(TABS)
    args = build_args(base_opts(opts))
    drv = explore.get_driver(caller=caller)
    cid = drv.mkconfig(args)
    prob = Streams(enc, hits, depth, {})
    stats, viols = explore.bfs(prob, drv, cid, deadline=deadline)
    drv.drop(cid)
    for v in viols:
        v.args = args
        v.caller = caller
        v.config_label = label
    d = stats.merge_dict()
    d.update(label=label, spec=(enc, "depth=%d" % depth), violations=viols, args=args, caller=caller)
    return d


# ---------------------------------------------------------------------------------------------
# E2: a match that spans several lines (`rg -U --json`) is one record; every line of it is a hit

ML_CODES = ["fn main() {", "\tmain()", "x", "", "main main", "  y\u6f22 main"]


def rg_record(typ, path, number, text, subs):
    d = {"type": typ, "data": {"path": {"text": path}, "lines": {"text": text}, "line_number": number,
                               "absolute_offset": 0,
                               "submatches": [{"match": {"text": text.encode("utf-8")[a:b].decode("utf-8", "replace")},
                                               "start": a, "end": b} for a, b in subs]}}
    return json.dumps(d, ensure_ascii=False).encode("utf-8") + b"\n"


def run_multiline(task):
    """law: a record whose text holds k lines is rendered exactly like k records of one line each (line numbers
    counted on, every submatch cut at the line ends); nl in {LF, CRLF}; submatches: every 'main', or one range from
    the middle of the first line to the middle of the last"""
    label, ov, ks, deadline = task
    opts = dict(ov)
    opts["tabs"] = str(TABS)
    args = build_args(base_opts(opts))
    drv = explore.get_driver(caller=None)
    cid = drv.mkconfig(args)
    viols = []
    n = 0
    outs = set()
    # one-line records whose submatch reaches into the line terminator (`rg 'bar\s*$'` on a CRLF file): highlighted up to
    # the end of the line, like the same record with the submatch cut there
    for code in ML_CODES:
        for nl in ("\n", "\r\n"):
            cb = code.encode("utf-8")
            if len(cb) < 2:
                continue
            a = len(cb) - (4 if cb.endswith(b"main") else 1)
            full = rg_record("match", "src/a.rs", 7, code + nl, [(a, len(cb) + len(nl))])
            cut = rg_record("match", "src/a.rs", 7, code + nl, [(a, len(cb))])
            r1, r2 = drv.render(cid, [full, cut])
            n += 1
            if (r1.panic or r1.out != r2.out) and not viols:
                v = Violation("submatch-into-terminator-differs", "record %r with submatch %d..%d (into the terminator) is rendered "
                              "differently from the same record with the submatch ending at the end of the line: %r vs %r"
                              % (code + nl, a, len(cb) + len(nl), (r1.panic or r1.out.decode("utf-8", "replace"))[:200],
                                 r2.out.decode("utf-8", "replace")[:200]), full.split(b"\n")[:-1], None, r2.out[:300], r1.out[:300])
                v.args = args
                v.config_label = "terminator," + label
                viols.append(v)
    # tabs: a record is rendered like the same record with its tabs expanded beforehand and every submatch position moved
    # by the tabs in front of it (exact spans also for a match that begins inside the indentation, `rg '^\s+return'`)
    for code in ("\t\tmain x", "\tmain\tmain", " \t main", "\treturn\t1"):
        cb = code.encode("utf-8")
        for sub in ([(1, len(cb) - 1)], [(0, 3)], [(i, i + 1) for i in range(len(cb)) if cb[i:i + 1] == b"\t"],
                    [(m.start(), m.end()) for m in re.finditer(rb"main|return", cb)]):
            def moved(pos):
                return pos + cb[:pos].count(b"\t") * (TABS - 1)
            a_ = rg_record("match", "src/a.rs", 7, code + "\n", sub)
            b_ = rg_record("match", "src/a.rs", 7, code.replace("\t", " " * TABS) + "\n", [(moved(x), moved(y)) for x, y in sub])
            r1, r2 = drv.render(cid, [a_, b_])
            n += 1
            if (r1.panic or r1.out != r2.out) and not any(v.klass == "tab-submatch-differs" for v in viols):
                v = Violation("tab-submatch-differs", "record %r with submatches %r is rendered differently from the record with "
                              "the tabs expanded beforehand: %r vs %r" % (code, sub, (r1.panic or r1.out.decode("utf-8", "replace"))[-160:],
                                                                         r2.out.decode("utf-8", "replace")[-160:]),
                              a_.split(b"\n")[:-1], None, r2.out[:300], r1.out[:300])
                v.args = args
                v.config_label = "tabs," + label
                viols.append(v)
    # a line or a path that is not valid UTF-8 comes as {"bytes": base64}: rendered like the text with the undecodable
    # bytes replaced (no highlighted span: the offsets refer to the bytes)
    import base64
    for raw_code in (b"caf\xe9 main", b"\xff", b"x \xe9\xe8 y main z"):
        for raw_path in (b"src/a.rs", b"src/l\xe9.c"):
            def obj(b):
                try:
                    return {"text": b.decode("utf-8")}
                except UnicodeDecodeError:
                    return {"bytes": base64.b64encode(b).decode()}
            lossy = lambda b: b.decode("utf-8", "replace")
            rec = {"type": "match", "data": {"path": obj(raw_path), "lines": obj(raw_code + b"\n"), "line_number": 7,
                                             "absolute_offset": 0, "submatches": []}}
            ref = rg_record("match", lossy(raw_path), 7, lossy(raw_code) + "\n", [])
            tail = rg_record("context", lossy(raw_path), 8, "after\n", [])
            r1, r2 = drv.render(cid, [json.dumps(rec).encode() + b"\n" + tail, ref + tail])
            n += 1
            if (r1.panic or r1.out != r2.out) and not any(v.klass == "bytes-record-differs" for v in viols):
                v = Violation("bytes-record-differs", "an rg record with %r / %r given as bytes is rendered differently from the "
                              "text record with the undecodable bytes replaced: %r vs %r"
                              % (raw_path, raw_code, (r1.panic or r1.out.decode("utf-8", "replace"))[:200],
                                 r2.out.decode("utf-8", "replace")[:200]), [json.dumps(rec).encode()], None, r2.out[:300], r1.out[:300])
                v.args = args
                v.config_label = "bytes," + label
                viols.append(v)
    for k in ks:
        for codes in itertools.product(ML_CODES, repeat=k):
            for nl in ("\n", "\r\n"):
                for span in (False, True):
                    if time.time() > deadline:
                        break
                    text = "".join(c + nl for c in codes)
                    lens = [len(c.encode("utf-8")) for c in codes]
                    starts = [sum(lens[:i]) + i * len(nl) for i in range(k)]
                    if span:
                        a = starts[0] + lens[0] // 2
                        b = starts[-1] + (lens[-1] + 1) // 2
                        subs = [(a, b)] if a < b else []
                    else:
                        subs = []
                        tb = text.encode("utf-8")
                        i = tb.find(b"main")
                        while i >= 0:
                            subs.append((i, i + 4))
                            i = tb.find(b"main", i + 4)
                    multi = rg_record("match", "src/a.rs", 7, text, subs)
                    single = b""
                    for i, c in enumerate(codes):
                        lo, hi = starts[i], starts[i] + lens[i]
                        cut = [(max(x, lo) - lo, min(y, hi) - lo) for x, y in subs if max(x, lo) < min(y, hi)]
                        single += rg_record("match", "src/a.rs", 7 + i, c + "\n", cut)
                    tail = rg_record("context", "src/a.rs", 7 + k, "after\n", [])
                    r1, r2 = drv.render(cid, [multi + tail, single + tail])
                    n += 1
                    outs.add(explore.h64(r1.out))
                    if r1.panic or r1.out != r2.out:
                        if not viols:
                            v = Violation("multi-line-record-differs", "a record of %d lines (%r) is rendered differently "
                                          "from %d records of one line: %r vs %r"
                                          % (k, text, k, (r1.panic or r1.out.decode("utf-8", "replace"))[:300],
                                             r2.out.decode("utf-8", "replace")[:300]),
                                          (multi + tail).split(b"\n")[:-1], None, r2.out[:400], r1.out[:400])
                            v.args = args
                            v.config_label = "multiline," + label
                            viols.append(v)
    drv.drop(cid)
    return {"n": n, "violations": viols, "outs": outs}


# ---------------------------------------------------------------------------------------------
# E4: through `delta git grep ...` / `delta rg ...` with stub executables

def stub_dir():
    d = os.path.join(BUILD, "stubs_c16")
    os.makedirs(d, exist_ok=True)
    for name in ("git", "rg"):
        p = os.path.join(d, name)
        with open(p, "w") as f:
            f.write("#!/bin/sh\ncat \"$VERIF_STUB_OUTPUT\"\nexit ${VERIF_STUB_STATUS:-0}\n")
        os.chmod(p, os.stat(p).st_mode | stat.S_IXUSR | stat.S_IXGRP | stat.S_IXOTH)
    return d


def conformance(cases):
    """cases: (args, caller words, stream bytes): `delta <args> git grep -n x` over the stub must
    produce exactly what the driver produced for the stream with that caller."""
    import subprocess
    from driver import Driver, base_env
    sd = stub_dir()
    n = 0
    mism = []
    for args, caller, data in cases:
        d = Driver(caller=caller)
        cid = d.mkconfig(args)
        want = d.render1(cid, data).out
        d.shutdown()
        env = base_env()
        env["PATH"] = sd + ":" + env["PATH"]
        fn = os.path.join(sd, "out_%d" % os.getpid())
        with open(fn, "wb") as f:
            f.write(data)
        env["VERIF_STUB_OUTPUT"] = fn
        p = subprocess.run([build.BIN] + args + caller, env=env, stdin=subprocess.DEVNULL,
                           stdout=subprocess.PIPE, stderr=subprocess.PIPE, timeout=20)
        n += 1
        if p.stdout != want or p.returncode != 0:
            mism.append("delta %s: status %d, output differs from the in-process render of the same stream\n"
                        " cli=%r\n drv=%r\n stderr=%r" % (" ".join(caller), p.returncode, p.stdout[:200], want[:200],
                                                         p.stderr[:200]))
    return n, mism


ASSUMPTIONS = [
    "hits: kinds match/context/function-header x the listed paths x numbers {absent,1,7,123} x codes; "
    "plain-text streams only with lines inside the statement's unambiguous shapes; in addition a plain-text "
    "hit WITHOUT a line number whose path itself contains a `name.ext` followed by a separator "
    "(directories `pkg-1.2-3-rc/`, `lib-0.9:2/`) is treated as inherently ambiguous (with a line number it is checked)",
    "a row may be completed one step late (classic rows leave the code in the output buffer until the "
    "next line): only order, completeness at end of input and content are required",
    "function-context header rows are not required to repeat the path (they are rendered like hunk "
    "headers, whose style decides about `file`)",
    "code compared modulo trailing blanks; tabs = 4",
]


def main(tier):
    import runner
    t0 = time.time()
    build.ensure_built()
    deadline = t0 + (50 if tier == "quick" else 900)
    depth = 3 if tier == "quick" else 4
    small = make_hits(PATHS_SMALL, NUMBERS_SMALL, CODES_SMALL)
    full = make_hits(PATHS_FULL, NUMBERS_FULL, CODES_FULL)
    tasks = []
    GG = ["git", "grep", "-n", "main"]
    for enc, caller, hits in (("coloured", GG, small), ("plain", GG, [h for h in small if not ambiguous_plain(h)]),
                              ("json", None, [h for h in small if h.kind != "header"]),
                              ("plain", ["rg", "main"], [h for h in small if not ambiguous_plain(h) and h.kind != "header"])):
        for lbl, ov in (("default", {}), ("classic", {"grep-output-type": "classic"}),
                        ("ripgrep", {"grep-output-type": "ripgrep"}), ("navigate", {"navigate": True}),
                        ("hyperlinks", {"hyperlinks": True}), ("ln", {"line-numbers": True}),
                        # options that belong to diffs must not change what a grep row shows
                        # (classic style deliberately renders a function-context header like a hunk header,
                        # so only the ripgrep style is claimed to be independent of hunk-header-style)
                        ("ripgrep,hunk-header-raw", {"grep-output-type": "ripgrep", "hunk-header-style": "raw"})):
            if tier == "quick" and lbl in ("hyperlinks", "ln") and enc != "coloured":
                continue
            tasks.append(("%s,%s,%s" % (enc, " ".join(caller or ["-"]), lbl), enc, caller, ov,
                          hits if lbl in ("default", "classic", "ripgrep") else hits[::3], depth))
        # the full product at depth 1-2 (every hit from the initial state and after one other hit)
        fh = full if enc != "plain" else [h for h in full if not ambiguous_plain(h)]
        if enc == "json":
            fh = [h for h in fh if h.kind != "header"]
        tasks.append(("%s,full" % enc, enc, caller, {}, fh, 1 if tier == "quick" else 2))
    # neighbouring names: a file whose name begins like the name of the file before it (`README`, `README-fr.md`);
    # the second is a file of its own unless the first could have context lines that look like it (a name with an
    # extension followed by a separator: outside the guarantee for plain text)
    nb = make_hits(["./README", "./README-fr.md", "pkg.d/LICENSE", "pkg.d/LICENSE-apache.txt", "Makefile", "Makefile-old.mk"],
                   [None, 7], ["x main", "voir: main"], kinds=[("match", ":")])
    for enc, caller in (("plain", GG), ("plain", ["rg", "main"]), ("coloured", GG), ("json", None)):
        for lbl, ov in (("classic", {"grep-output-type": "classic"}), ("ripgrep", {"grep-output-type": "ripgrep"})):
            tasks.append(("%s,%s,%s,neighbours" % (enc, " ".join(caller or ["-"]), lbl), enc, caller, ov,
                          nb if enc != "plain" else [h for h in nb if not ambiguous_plain(h)], 2 if tier == "quick" else 3))
    for cw in (["git", "grep", "-W", "main"], ["git", "grep", "-p", "main"]):
        tasks.append(("coloured," + " ".join(cw), "coloured", cw, {}, small, depth))
    # sort big first
    res = explore.pmap(run_task, [t + (deadline,) for t in tasks])
    mres = explore.pmap(run_multiline, [(lbl, ov, [2] if tier == "quick" else [2, 3], deadline)
                                        for lbl, ov in (("default", {}), ("classic", {"grep-output-type": "classic"}),
                                                        ("navigate", {"navigate": True}), ("hyperlinks", {"hyperlinks": True}),
                                                        ("ln", {"line-numbers": True}), ("syntax", {"syntax-theme": "Monokai Extended"}))])
    # conformance
    stream = b"".join(h.coloured() + b"\n" for h in small[:6]) + b"--\n" + small[7].coloured() + b"\n"
    jstream = b"".join(h.rgjson() + b"\n" for h in small[:5] if h.kind != "header")
    cases = [(build_args(base_opts({"tabs": str(TABS)})), GG, stream),
             (build_args(base_opts({"tabs": str(TABS), "grep-output-type": "ripgrep"})), GG, stream),
             (build_args(base_opts({"tabs": str(TABS)})), ["rg", "--json", "main"], jstream)]
    nconf, mism = conformance(cases)
    if mism:
        raise build.MachineryError("stub conformance failed: " + mism[0])
    # merge
    import report
    states = transitions = renders = 0
    maxd = 0
    snaps = set()
    outs = set()
    caps = []
    samples = []
    viols = []
    per = {}
    for r in res:
        states += r["states"]
        transitions += r["transitions"]
        renders += r["renders"]
        maxd = max(maxd, r["max_depth"])
        snaps |= r["snapshots"]
        outs |= r["step_outputs"]
        if r["cap_hit"]:
            caps.append("%s: %s" % (r["label"], r["cap_hit"]))
        if r["samples"] and len(samples) < 4:
            samples.append({"config": r["label"], "history": r["samples"][0]})
        per[r["label"]] = {"states": r["states"], "transitions": r["transitions"]}
        viols.extend(r["violations"])
    nml = sum(r["n"] for r in mres)
    mouts = set()
    for r in mres:
        viols.extend(r["violations"])
        mouts |= r["outs"]
    best = {}
    for v in viols:
        cur = best.get(v.klass)
        if cur is None or len(v.history or []) < len(cur.history or []):
            best[v.klass] = v
    viols = sorted(best.values(), key=lambda v: v.klass)
    cov = {"states": states, "transitions": transitions, "traces_validated_against_impl": renders + nconf + 2 * nml,
           "multi_line_record_pairs": nml, "multi_line_distinct_outputs": len(mouts),
           "samples": samples or [{"note": "depth < 3"}], "renders_of_real_code": renders,
           "stub_conformance_runs": nconf, "max_depth": maxd, "distinct_snapshots": len(snaps),
           "distinct_step_outputs": len(outs), "per_search": per, "caps_hit": caps, "exhaustive": not caps}
    return report.finish(PROP, tier, "model_checking", cov, viols, ASSUMPTIONS, t0, runner.seed())
