"""C01 - every hunk line shown exactly once, in order, text intact (unified view).

E1 explicit-state search over the real line machine with a FIFO reference model.
Search A: inside one file (all hunk-line sequences over an alphabet, unified / combined with
          conflict regions / plain diff -u).
Search B: across files (sequences of file sections of 12 kinds x 5 hunk endings, with an
          optional commit block).
"""
import sys
import time

import explore
import obs
import producers
import term
from explore import Problem, ViolationError
from lattice import Dim, base_opts, build_args, deviations

PROP = "C01"
TRUNC = "→"  # delta's default truncation symbol

CONTENTS_QUICK = [b"x", b"", b"- y", b"\tt\tu", b"\xc3\xa9\xe6\xbc\xa2 z"]
LONG = b"1234567890123456789012345678901234567890"
CONTENTS_FULL = [b"x", b"", b"- y", b"-- y", b"++ y", b"@@ q", b"\\ w", b"\tt\tu",
                 b"\xc3\xa9\xe6\xbc\xa2 z", b"1234567890123456789012345678901234567890", b"x ",
                 # a line that looks like a submodule commit line; text starting with a combining character
                 b"Subproject commit zz", b"Subproject commit 0123456789abcdef0123456789abcdef01234567", b"\xcc\x81x\xe0\xa4\xbe"]


def expected_text(line, n_parents, ocfg, in_conflict=False):
    """Visible text a hunk line must be shown with. Returns list of acceptable texts."""
    s = line.decode("utf-8", "replace")
    body = s[n_parents:]
    prefix = s[:n_parents]
    tabs = ocfg.get("tabs", 8)

    def tab(x):
        return x.replace("\t", " " * tabs) if tabs > 0 else x
    if n_parents > 1 and not in_conflict:
        # combined diff outside a conflict: delta documents that it always shows the prefix
        return [tab(prefix + body), tab(body)]
    if n_parents > 1:
        # inside a conflict region the marker setting is honoured ('-' ancestor, '+' side)
        return [tab(body), tab("-" + body), tab("+" + body)] if ocfg.get("markers") else [tab(body)]
    if ocfg.get("markers"):
        return [tab(prefix[:1] + body)]
    return [tab(body)]


def text_matches(observed, exact, acceptable, raw_len, ocfg):
    maxlen = ocfg.get("maxlen", 3000)
    for exp in acceptable:
        if exact:
            if observed == exp:
                return True
        else:
            if observed.rstrip(" ") == exp.rstrip(" "):
                return True
        # truncation is allowed only beyond max-line-length and must show the mark
        if maxlen > 0 and raw_len > maxlen:
            o = observed if exact else observed.rstrip(" ")
            if o.endswith(TRUNC) and exp.startswith(o[:-1]) and len(o) - 1 < len(exp):
                return True
    return False


class FifoOracle(object):
    """Shared by searches A and B. The model state is (queue, blanks): the tuple of expected
    items not yet shown - item = (kind, acceptable texts, raw byte length, section index) - and
    the number of bare empty rows seen since the head of the queue became the head. A hunk line
    whose text is empty shows as a bare empty row when nothing pads or fills it (width=variable,
    or no background), which cannot be told from a decoration's blank row; such a row is
    credited and an empty-text head item may be discharged against a credit when the next
    classified row, a header, or end of input requires it."""

    def __init__(self, ocfg):
        self.ocfg = ocfg

    @staticmethod
    def _is_empty(item):
        return item[0] not in ("raw", "sub") and all(t.strip(" ") == "" for t in item[1])

    def _matches(self, item, info):
        kind, texts, rawlen, sec = item
        return kind == info.kind and text_matches(info.text, info.exact, texts, rawlen, self.ocfg)

    def push(self, model, item):
        q, blanks = model
        if not q:
            blanks = 0
        return (q + (item,), blanks)

    def consume_rows(self, model, out, cur_section, own=0, lenient=False, skip=None):
        """own: number of items at the tail of the queue that were pushed by the current input
        line itself (a header may legitimately precede them: delta writes the hunk header when
        the first line of the hunk arrives)."""
        q = list(model[0])
        blanks = model[1]
        for info in obs.observe(out):
            k = info.kind
            if skip is not None and skip(info):
                continue
            if k == "blank":
                if q:
                    blanks += 1
                continue
            # a `Subproject commit <hash>[-dirty]` line is shown by the submodule handler in a form of its own
            # (`<hash>..<hash>`): what must survive is the (abbreviated) hash, and `-dirty` if the line carries it
            # (the `-dirty` suffix of a submodule with uncommitted changes is not required: delta's own test
            # `test_simple_dirty_submodule_diff` pins that it is not shown)
            while q and q[0][0] == "sub" and q[0][1][0] in info.text:
                q.pop(0)
            if q and q[0][0] == "sub" and k in ("minus", "plus", "zero", "mixed", "other"):
                continue
            if k in ("minus", "plus", "zero", "mixed"):
                while q and blanks > 0 and self._is_empty(q[0]) and not self._matches(q[0], info):
                    q.pop(0)
                    blanks -= 1
                if not q and lenient:
                    continue
                if not q:
                    raise ViolationError(
                        "extra-row", "a hunk row appears that corresponds to no pending input "
                        "line (duplicated or invented): %r" % info.text, observed=info.text)
                kind, texts, rawlen, sec = q[0]
                if kind == "raw":
                    raise ViolationError(
                        "order", "hunk row %r shown before the earlier line %r"
                        % (info.text, texts[0]), expected=texts[0], observed=info.text)
                if kind != k:
                    raise ViolationError(
                        "wrong-kind", "row of kind %s (%r) where the next input line is %s %r"
                        % (k, info.text, kind, texts[0]), expected=[kind, texts[0]],
                        observed=[k, info.text])
                if not text_matches(info.text, info.exact, texts, rawlen, self.ocfg):
                    raise ViolationError(
                        "text-altered", "line shown as %r, expected %r" % (info.text, texts[0]),
                        expected=list(texts), observed=info.text)
                q.pop(0)
                blanks = 0
            elif k in ("file", "hunk", "commit", "mcheader"):
                # (only a hunk header - or the headers of a conflict region - may precede the line that is being
                # consumed; a file or commit header in the middle of a hunk separates the line from its hunk)
                own_ = own if k in ("hunk", "mcheader") else 0
                while len(q) > own_ and blanks > 0 and self._is_empty(q[0]):
                    q.pop(0)
                    blanks -= 1
                if len(q) > own_:
                    raise ViolationError(
                        "header-before-lines", "a %s header row %r is written while %d earlier "
                        "hunk line(s) are still pending (first: %r)"
                        % (k, info.text, len(q) - own_, q[0][1][0]),
                        expected=q[0][1][0], observed=info.text)
                blanks = 0
            elif k == "other" and info.text.startswith("Binary files ") and info.text.endswith(" differ") and q \
                    and not any(self._is_empty(it) for it in q):
                # a `Binary files x and y differ` line passed through as it is opens the next file's section
                raise ViolationError(
                    "header-before-lines", "the next file's line %r is written while %d earlier hunk line(s) are still "
                    "pending (first: %r)" % (info.text, len(q), q[0][1][0]), expected=q[0][1][0], observed=info.text)
            elif k == "other" and info.text.startswith("commit " + producers.H40A.decode()):
                # a commit line passed through unstyled (commit-style raw) is still the next commit's header
                while q and blanks > 0 and self._is_empty(q[0]):
                    q.pop(0)
                    blanks -= 1
                if q:
                    raise ViolationError(
                        "header-before-lines", "the next commit's line %r is written while %d earlier "
                        "hunk line(s) are still pending (first: %r)" % (info.text, len(q), q[0][1][0]),
                        expected=q[0][1][0], observed=info.text)
                blanks = 0
            elif k == "other":
                while q and blanks > 0 and self._is_empty(q[0]):
                    q.pop(0)
                    blanks -= 1
                if q and q[0][0] == "raw":
                    kind, texts, rawlen, sec = q[0]
                    if text_matches(info.text, True, texts, rawlen, self.ocfg):
                        q.pop(0)
                        blanks = 0
                        continue
                # an unclassified row: not matched against anything; a hunk line that lost its
                # style will be reported as dropped at EOF
        nempty = sum(1 for it in q if self._is_empty(it))
        return (tuple(q), min(blanks, nempty))

    def at_eof(self, model, flush_out, cur_section, lenient=False, skip=None):
        q, blanks = self.consume_rows(model, flush_out, cur_section, lenient=lenient, skip=skip)
        q = list(q)
        while q and blanks > 0 and self._is_empty(q[0]):
            q.pop(0)
            blanks -= 1
        if q:
            raise ViolationError(
                "dropped", "%d hunk line(s) never shown by end of input (first: %s %r)"
                % (len(q), q[0][0], q[0][1][0]), expected=q[0][1][0])


class SearchA(Problem):
    """One file, up to `hunks` hunks of up to L lines over the alphabet."""
    max_depth = 64

    def __init__(self, ocfg, contents, L, hunks=1, variant="unified"):
        self.ocfg = ocfg
        self.oracle = FifoOracle(ocfg)
        self.L = L
        self.hunks = hunks
        self.variant = variant
        if variant == "unified":
            self.np = 1
            self.header = [b"diff --git a/f.txt b/f.txt", b"index 1111111..2222222 100644",
                           b"--- a/f.txt", b"+++ b/f.txt"]
            self.hh = [b"@@ -1,9 +1,9 @@", b"@@ -21 +21,2 @@ fn frag()"]
            self.alphabet = [(p + c, producers.hunk_line_kind(p + c))
                             for c in contents for p in (b" ", b"-", b"+")]
            self.alphabet.append((b"\\ No newline at end of file", "raw"))
        elif variant == "diffu":
            self.np = 1
            self.header = [b"--- a/f.txt\t2020-01-01 00:00:00.000000000 +0000",
                           b"+++ b/f.txt\t2020-01-02 00:00:00.000000000 +0000"]
            self.alphabet = [(p + c, producers.hunk_line_kind(p + c))
                             for c in contents for p in (b" ", b"-", b"+")]
            self.hh = None
        elif variant == "diffu-ru":
            # `diff -ru dirA dirB`: as "diffu", but every file starts with a `diff` line
            self.np = 1
            self.header = [b"diff -ru a/f.txt b/f.txt",
                           b"--- a/f.txt\t2020-01-01 00:00:00.000000000 +0000",
                           b"+++ b/f.txt\t2020-01-02 00:00:00.000000000 +0000"]
            self.alphabet = [(p + c, producers.hunk_line_kind(p + c))
                             for c in contents for p in (b" ", b"-", b"+")]
            self.hh = None
        elif variant == "combined":
            self.np = 2
            self.header = [b"diff --cc f.txt", b"index 1111111,2222222..3333333",
                           b"--- a/f.txt", b"+++ b/f.txt"]
            self.hh = [b"@@@ -1,9 -1,9 +1,9 @@@", b"@@@ -21,2 -21,2 +21,3 @@@ fn frag()"]
            self.alphabet = [(p + c, producers.hunk_line_kind(p + c, 2))
                             for c in contents for p in (b"  ", b"- ", b" -", b"--", b"+ ", b" +", b"++")]
        elif variant == "diffu-exact":
            # plain `diff -u`: hunk headers carry the true counts (they drive delta's decision
            # whether a '--- x' line is a removed line or the next file's header)
            self.np = 1
            self.header = [b"--- a/f.txt\t2020-01-01 00:00:00.000000000 +0000",
                           b"+++ b/f.txt\t2020-01-02 00:00:00.000000000 +0000"]
            self.contents = contents
            self.hh = None
            self.alphabet = []
        elif variant == "bare-exact":
            # hunks without any file header (`p4 describe -du`, the `patch` text of the GitHub API, a pasted hunk); true counts
            self.np = 1
            self.header = [b"==== //depot/f.txt#3 (text) ===="]
            self.contents = contents
            self.hh = None
            self.alphabet = []
        elif variant == "prose-combined":
            # `git show <annotated tag>` of a merge commit whose tag message holds a line starting with `--- `
            self.np = 2
            self.header = [b"tag v1.0", b"Tagger: A U Thor <a@example.com>", b"", b"--- Changes ---", b"",
                           b"commit 1111111111111111111111111111111111111111", b"",
                           b"diff --cc f.txt", b"index 1111111,2222222..3333333",
                           b"--- a/f.txt", b"+++ b/f.txt"]
            self.hh = [b"@@@ -1,9 -1,9 +1,9 @@@", b"@@@ -21,2 -21,2 +21,3 @@@ fn frag()"]
            self.alphabet = [(p + c, producers.hunk_line_kind(p + c, 2))
                             for c in contents for p in (b"  ", b"- ", b" -", b"--", b"+ ", b" +", b"++")]
        elif variant == "conflict":
            self.np = 2
            self.header = [b"diff --cc f.txt", b"index 1111111,2222222..0000000",
                           b"--- a/f.txt", b"+++ b/f.txt"]
            self.hh = [b"@@@ -1,9 -1,9 +1,19 @@@"]
            self.alphabet = [(b"  a", "zero"), (b"++c", "plus"), (b"- b", "minus")]
            self.side = {"ours": [b" +" + c for c in contents],
                         "anc": [b"++" + c for c in contents],
                         "theirs": [b"+ " + c for c in contents]}
        else:
            raise ValueError(variant)

    # producer state: (stage, hunk index, lines used in this hunk, minus count left, plus left)
    def initial(self):
        return (("hdr", 0, 0, 0), ((), 0))

    def successors(self, ps):
        stage, a, b, c = ps
        if stage == "hdr":
            if a < len(self.header):
                return [(self.header[a], ("hdr", a + 1, 0, 0), "header")]
            return self._hunk_headers(0)
        if self.variant == "conflict" and stage != "hunk":
            return self._conflict_successors(ps)
        if self.variant in ("diffu-exact", "bare-exact"):
            return self._exact_successors(ps)
        # stage == "hunk": a = hunk index, b = lines used
        out = []
        if self.variant == "conflict" and b < self.L:
            out.append((b"++<<<<<<< HEAD", ("ours", (), (), ()), "mc-begin"))
        if b < self.L:
            for line, kind in self.alphabet:
                out.append((line, ("hunk", a, b + 1, 0), "hunk-" + kind))
        if b >= 1 and a + 1 < self.hunks:
            out.extend(self._hunk_headers(a + 1))
        return out

    def _exact_successors(self, ps):
        # ps = ("hunk", hunk index, lines used, (old left, new left) | None)
        stage, a, b, left = ps
        out = []
        if left is None or left == (0, 0):
            if left is None or a + 1 < self.hunks:
                idx = 0 if left is None else a + 1
                for m in range(0, self.L + 1):
                    for p in range(0, self.L + 1 - m):
                        if m + p == 0:
                            continue
                        def rng(s_, c):
                            return b"%d" % s_ if c == 1 else b"%d,%d" % (s_, c)
                        hh = b"@@ -" + rng(1 + 10 * idx, m) + b" +" + rng(1 + 10 * idx, p) + b" @@"
                        out.append((hh, ("hunk", idx, 0, (m, p)), "hunk-header"))
            return out
        m, p = left
        for c in self.contents:
            if m > 0 and p > 0:
                out.append((b" " + c, ("hunk", a, b + 1, (m - 1, p - 1)), "hunk-zero"))
            if m > 0:
                out.append((b"-" + c, ("hunk", a, b + 1, (m - 1, p)), "hunk-minus"))
            if p > 0:
                out.append((b"+" + c, ("hunk", a, b + 1, (m, p - 1)), "hunk-plus"))
        return out

    def _conflict_successors(self, ps):
        # ps = (side, ours lines, ancestor lines, theirs lines); at most 2 lines per side
        side, o, a, t = ps
        out = []
        cur = {"ours": o, "anc": a, "theirs": t}[side]
        if len(cur) < 2:
            for l in self.side[side]:
                nxt = {"ours": (side, o + (l,), a, t), "anc": (side, o, a + (l,), t),
                       "theirs": (side, o, a, t + (l,))}[side]
                out.append((l, nxt, "mc-line"))
        if side == "ours":
            out.append((b"++||||||| base", ("anc", o, a, t), "mc-anc"))
            out.append((b"++=======", ("theirs", o, a, t), "mc-sep"))
        elif side == "anc":
            out.append((b"++=======", ("theirs", o, a, t), "mc-sep"))
        else:
            out.append((b"++>>>>>>> br", ("hunk", 0, self.L, ("end", o, a, t)), "mc-end"))
        # a region that is never closed (a file that merely contains a marker-like line): the hunk
        # ends at the next hunk header / file / end of input, and its lines are still hunk lines
        out.append((b"@@@ -30,2 -30,2 +30,3 @@@", ("hunk", 0, self.L, ("abort", o, a, t)), "mc-abort"))
        out.append((b"diff --cc g.txt", ("hunk", 0, self.L, ("abort", o, a, t)), "mc-abort"))
        return out

    def _region_skip(self, lines):
        acc = []
        for l in lines:
            acc += expected_text(l, 2, self.ocfg, True) + expected_text(l, 2, self.ocfg, False)

        def skip(info):
            return info.kind == "mcheader" or (
                info.kind in ("minus", "plus", "zero", "mixed")
                and text_matches(info.text, info.exact, acc, 0, self.ocfg))
        return skip

    def _region_lines_shown(self, lines, out, what):
        rows = []
        for info in obs.observe(out):
            if info.kind in ("file", "hunk", "commit"):
                break
            if info.kind in ("minus", "plus", "zero", "mixed"):
                rows.append(info)
        for l in lines:
            acc = expected_text(l, 2, self.ocfg, True) + expected_text(l, 2, self.ocfg, False)
            if not any(text_matches(r.text, r.exact, acc, len(l), self.ocfg) for r in rows):
                raise ViolationError(
                    "dropped", "line %r of a merge conflict region that is not closed before %s is "
                    "never shown" % (l, what), expected=l.decode("utf-8", "replace"))

    def _hunk_headers(self, idx):
        if self.variant in ("diffu-exact", "bare-exact"):
            return self._exact_successors(("hunk", 0, 0, None))
        if self.variant in ("diffu", "diffu-ru"):
            # counts matter for plain diff -u (they drive the ambiguous '--- ' counter): offer
            # the maximal counts, under which every alphabet line is a hunk line
            return [(b"@@ -1,%d +1,%d @@" % (self.L, self.L), ("hunk", idx, 0, 0), "hunk-header")]
        return [(self.hh[idx % len(self.hh)], ("hunk", idx, 0, 0), "hunk-header")]

    def step(self, model, line, kind, out, ps):
        q = model
        if kind == "mc-end":
            # a conflict region is shown as two comparisons against the common ancestor
            _, o, a, t = ps[3]
            n = 0
            for minus, plus in ((a, o), (a, t)):
                for l in minus:
                    q = self.oracle.push(q, ("minus", tuple(expected_text(l, 2, self.ocfg, True)),
                                             len(l), 0))
                for l in plus:
                    q = self.oracle.push(q, ("plus", tuple(expected_text(l, 2, self.ocfg, True)),
                                             len(l), 0))
                n += len(minus) + len(plus)
            return self.oracle.consume_rows(q, out, 0, own=n)
        if kind == "mc-abort":
            _, o, a, t = ps[3]
            self._region_lines_shown(o + a + t, out, "the next header")
            # rows showing region lines (their texts differ from every line outside the region) and
            # the region's own headers are not matched against the lines pending from before it
            return self.oracle.consume_rows(q, out, 0, skip=self._region_skip(o + a + t))
        if kind.startswith("hunk-") and kind != "hunk-header":
            k = kind[5:]
            if k == "raw":
                texts = (line.decode("utf-8", "replace"),)
                tabs = self.ocfg.get("tabs", 8)
                if tabs:
                    texts = (texts[0].replace("\t", " " * tabs),)
            else:
                texts = tuple(expected_text(line, self.np, self.ocfg))
            q = self.oracle.push(q, (k, texts, len(line), 0))
            return self.oracle.consume_rows(q, out, 0, own=1)
        return self.oracle.consume_rows(q, out, 0)

    def eof(self, model, out, ps):
        if self.variant == "conflict" and ps[0] in ("ours", "anc", "theirs"):
            self._region_lines_shown(ps[1] + ps[2] + ps[3], out, "end of input")
            self.oracle.at_eof(model, out, 0, skip=self._region_skip(ps[1] + ps[2] + ps[3]))
            return
        self.oracle.at_eof(model, out, 0)


class SearchB(Problem):
    """Sequences of whole file sections; one producer step = one input line, sections are
    deterministic inside, choice points are (kind, body) of the next section."""
    max_depth = 200

    def __init__(self, ocfg, max_sections, kinds=None, bodies=None, with_commit=True, src="git"):
        self.ocfg = ocfg
        self.oracle = FifoOracle(ocfg)
        self.max_sections = max_sections
        self.kinds = kinds or (producers.SECTION_KINDS + (["commit", "submodule_deleted", "submodule_added",
                                                           "submodule_dirty"] if src == "git" else []))
        self.bodies = bodies or producers.BODY_KINDS
        self.with_commit = with_commit
        self.src = src
        self.cache = {}

    def sec(self, kind, n, body):
        key = (kind, n, body)
        if key not in self.cache:
            self.cache[key] = producers.section(kind, n, body, self.src)
        return self.cache[key]

    # producer state: (nsections done, current (kind, body) or None, index in section lines)
    def initial(self):
        return ((0, None, 0, False), ((), 0))

    def _choices(self, n, sub=False):
        out = []
        if n >= self.max_sections:
            return out
        for kind in self.kinds:
            bodies = self.bodies if producers.section(kind, 0, "ctx", self.src)[1]["has_hunk"] \
                and not kind.startswith("submodule") else ["ctx"]
            for body in bodies:
                lines, info = self.sec(kind, n, body)
                out.append((lines[0], (n, (kind, body), 1, sub or kind.startswith("submodule")),
                            "sec-" + kind))
        return out

    def successors(self, ps):
        n, cur, i, sub = ps
        if cur is None:
            out = self._choices(n)
            if n == 0 and self.with_commit and i == 0:
                out.append((producers.COMMIT_BLOCK[0], (0, None, 1, False), "commit"))
            elif n == 0 and i > 0:
                # inside the commit block
                if i < len(producers.COMMIT_BLOCK):
                    return [(producers.COMMIT_BLOCK[i], (0, None, i + 1, False), "commit")]
                return self._choices(0)
            return out
        kind, body = cur
        lines, info = self.sec(kind, n, body)
        if i < len(lines):
            return [(lines[i], (n, cur, i + 1, sub), "line")]
        return self._choices(n + 1, sub) if n + 1 < self.max_sections else []

    def step(self, model, line, kind, out, ps):
        q = model
        n, cur, i, sub = ps
        own = 0
        if cur is not None and cur[0].startswith("submodule") and line[1:].startswith(b"Subproject commit "):
            h = line[len(b"-Subproject commit "):].decode()
            q = self.oracle.push(q, ("sub", (h[:7], "dirty" if h.endswith("-dirty") else ""), len(line), n))
            return self.oracle.consume_rows(q, out, ps[0], 1, lenient=True)
        if cur is not None and not cur[0].startswith("submodule"):
            knd, body = cur
            lines, info = self.sec(knd, n, body)
            np_ = 2 if knd == "combined" else 1
            nh = len(info["hunk_lines"])
            if info["has_hunk"] and i - 1 >= len(lines) - nh:
                k = producers.hunk_line_kind(line, np_)
                if k == "raw":
                    texts = (line.decode("utf-8", "replace"),)
                else:
                    texts = tuple(expected_text(line, np_, self.ocfg))
                q = self.oracle.push(q, (k, texts, len(line), n))
                own = 1
        # submodule sections are rendered by delta's submodule handler (hash..hash), which is
        # not hunk rendering: rows there are not matched against hunk lines
        return self.oracle.consume_rows(q, out, ps[0], own, lenient=sub)

    def eof(self, model, out, ps):
        self.oracle.at_eof(model, out, ps[0], lenient=ps[3])


# ---------------------------------------------------------------------------------------------

DIMS = [
    Dim("line-numbers", [("off", {}), ("on", {"line-numbers": True})]),
    Dim("markers", [("off", {}), ("on", {"keep-plus-minus-markers": True, "_markers": True})]),
    Dim("tabs", [("8", {}), ("0", {"tabs": "0", "_tabs": 0}), ("1", {"tabs": "1", "_tabs": 1}),
                 ("3", {"tabs": "3", "_tabs": 3})]),
    Dim("line-buffer-size", [("32", {}), ("0", {"line-buffer-size": "0"}),
                             ("1", {"line-buffer-size": "1"}), ("2", {"line-buffer-size": "2"})]),
    Dim("max-line-distance", [("0.6", {}), ("0", {"max-line-distance": "0"}),
                              ("1", {"max-line-distance": "1"})]),
    Dim("max-line-length", [("3000", {}), ("0", {"max-line-length": "0", "_maxlen": 0}),
                            ("32", {"max-line-length": "32", "_maxlen": 32})]),
    Dim("preset", [("none", {}), ("diff-so-fancy", {"diff-so-fancy": True}),
                   ("diff-highlight", {"diff-highlight": True})]),
    Dim("file-style", [("reserved", {}),
                       ("box", {"file-decoration-style": "117 box"}),
                       ("ul-ol", {"file-decoration-style": "117 ul ol"}),
                       ("nodeco", {"file-decoration-style": "none"})]),
    Dim("hunk-header", [("reserved", {}),
                        ("file-ln", {"hunk-header-style": "file line-number 110"}),
                        ("omit-cf", {"hunk-header-style": "omit-code-fragment line-number 110"}),
                        ("nodeco", {"hunk-header-decoration-style": "none"})]),
    Dim("commit", [("reserved", {}), ("box-ul", {"commit-decoration-style": "119 box ul"}),
                   ("raw", {"commit-style": "raw", "commit-decoration-style": "none"})]),
    Dim("navigate", [("off", {}), ("on", {"navigate": True})]),
    Dim("hyperlinks", [("off", {}), ("on", {"hyperlinks": True})]),
    Dim("width", [("40", {}), ("7", {"width": "7"}), ("variable", {"width": "variable"})]),
    Dim("true-color", [("never", {}), ("always", {"true-color": "always"})]),
]

PRESET_STYLE_KEYS = {
    # presets set their own styles; re-assert the reserved ones on the command line so the
    # observer can still classify (command line has priority over features)
}


def split_opts(ov):
    """-> (delta options dict, oracle config dict)"""
    opts = {}
    ocfg = {"tabs": 8, "markers": False, "maxlen": 3000}
    for k, v in ov.items():
        if k.startswith("_"):
            ocfg[k[1:]] = v
        else:
            opts[k] = v
    return opts, ocfg


def run_task(task):
    """One (search spec, configuration) pair. Returns dict with stats and violations."""
    spec, label, ov, deadline = task
    opts, ocfg = split_opts(ov)
    caller = ocfg.pop("caller", None)
    args = build_args(base_opts(opts))
    drv = explore.get_driver(caller=caller)
    try:
        cid = drv.mkconfig(args)
    except explore.Rejected as e:
        return {"label": label, "spec": spec, "rejected": str(e)}
    if spec[0] == "A":
        _, variant, contents, L, hunks = spec
        prob = SearchA(ocfg, contents, L, hunks, variant)
    else:
        _, nsec, kinds, bodies, src = spec
        prob = SearchB(ocfg, nsec, kinds, bodies, True, src)
    # with syntax highlighting on, the highlighter's parse state is not part of the snapshot:
    # such searches enumerate histories without deduplication
    dedup = opts.get("syntax-theme") in (None, "none")
    stats, viols = explore.bfs(prob, drv, cid, deadline=deadline, dedup=dedup)
    drv.drop(cid)
    for v in viols:
        v.args = args
        v.config_label = label
    d = stats.merge_dict()
    for v in viols:
        v.caller = caller
    d.update(label=label, spec=spec[:2] + (() if dedup else ("no-dedup",)), violations=viols, args=args,
             caller=caller)
    return d


def plan(tier):
    tasks = []
    d = 1 if tier == "quick" else 2
    configs = deviations(DIMS, d)
    if tier == "quick":
        specs = [("A", "unified", CONTENTS_QUICK, 3, 1),
                 ("B", 2, None, None, "git")]
        deep = [("A", "unified", CONTENTS_FULL, 3, 1), ("A", "unified", CONTENTS_QUICK, 2, 2),
                ("A", "combined", CONTENTS_QUICK[:3], 3, 1),
                ("A", "diffu", CONTENTS_QUICK + [b"-- y"], 3, 1),
                ("A", "diffu-ru", [b"x", b"-- y", b"++ y"], 3, 1),
                ("A", "conflict", [b"x", b""], 2, 1),
                ("A", "diffu-exact", [b"x", b"-- y"], 3, 2),
                ("A", "bare-exact", [b"x", b"-- y"], 3, 2),
                ("A", "prose-combined", [b"x", b"B"], 3, 1),
                ("B", 2, ["modified", "mode", "rename_change", "binary"], None, "diffu")]
    else:
        specs = [("A", "unified", CONTENTS_QUICK, 4, 1),
                 ("B", 2, None, None, "git")]
        deep = [("A", "unified", CONTENTS_FULL, 4, 1), ("A", "unified", CONTENTS_QUICK, 3, 2),
                ("A", "combined", CONTENTS_QUICK, 3, 1),
                ("A", "diffu", CONTENTS_FULL, 3, 1),
                ("A", "diffu-ru", CONTENTS_FULL, 3, 1),
                ("A", "conflict", [b"x", b"", b"\tt", b"\xc3\xa9\xe6\xbc\xa2"], 3, 1),
                ("A", "diffu-exact", [b"x", b"-- y", b"++ y", b""], 4, 2),
                ("A", "bare-exact", [b"x", b"-- y", b"++ y"], 4, 2),
                ("A", "prose-combined", CONTENTS_QUICK[:3], 3, 1),
                ("B", 3, None, ["ctx", "minus", "minusplus"], "git"),
                ("B", 2, ["modified", "binary"], None, "diffu")]
    for label, ov, k in configs:
        for spec in specs:
            tasks.append((spec, label, ov))
    for spec in deep:
        tasks.append((spec, "default", {}))
        tasks.append((spec, "line-numbers=on", {"line-numbers": True}))
    # the process that produced the input (found by delta in the process table; here given through the H3 seam):
    # git commands that do not ask for a word diff - among them options of which a word-diff option is a prefix
    # or extension - must not change how hunk lines are read
    for c in (["git", "diff", "--color=always"], ["git", "log", "-p", "--color", "--stat", "--word"],
              ["git", "show", "--color-moved", "--relative=x"], ["git", "reflog", "-p", "--colour-words"],
              ["git", "diff", "--word-diff=none"]):
        tasks.append((specs[0], "caller=" + " ".join(c), {"_caller": c}))
        tasks.append((("B", 2, ["modified", "rename_change", "mode"], ["ctx", "minusplus"], "git"),
                      "caller=" + " ".join(c), {"_caller": c}))
    # highlighting on (file name f.txt -> plain text syntax; and a Rust file name through search B is
    # not available, so the hunk contents are highlighted as plain text but through the real highlighter path)
    hl = {"syntax-theme": "Monokai Extended", "minus-style": "syntax 101", "plus-style": "syntax 104",
          "zero-style": "syntax 107", "minus-emph-style": "syntax 103", "plus-emph-style": "syntax 106",
          "minus-non-emph-style": "syntax 102", "plus-non-emph-style": "syntax 105"}
    tasks.append((("A", "unified", CONTENTS_QUICK, 3 if tier == "quick" else 4, 1), "highlighting=on", hl))
    tasks.append((("B", 2, None, ["ctx", "minusplus"], "git"), "highlighting=on", hl))
    return tasks, d, len(configs)


ASSUMPTIONS = [
    "alphabet: hunk lines = {' ','-','+'} x a fixed content set (marker look-alikes, empty, tabs, "
    "non-ASCII, trailing blank, text longer than the small max-line-length) + '\\ No newline'; "
    "values outside it are not covered",
    "bounds: lines per hunk and hunks per file / sections per input as listed under per_search",
    "syntax highlighting off for deduplicated searches (highlighter state is opaque)",
    "rows are classified by reserved palette numbers given on the command line; the terminal "
    "model and width table are the checker's own",
    "word-diff callers are outside this property",
]


def main(tier):
    import runner
    tasks, d, nconf = plan(tier)
    cap = 45 if tier == "quick" else 900
    return runner.run_e1(PROP, tier, tasks, run_task, ASSUMPTIONS, cap,
                         {"config_deviation_bound": d, "configurations": nconf})
