"""C19 - hyperlinks are well formed, transparent, and point at the right target.

E2, differential over diff / grep / blame families x {unified, line numbers, side-by-side with
wrapping} x link templates x working directory / GIT_PREFIX / relative-paths x commit-link format,
on a pipe and on a pty:
  * transparency: the output with OSC 8 sequences deleted is byte-identical to the run without
    hyperlinks;
  * every link opens and closes on its row;
  * a file link's target is the template applied to the absolute path of that section's file (and,
    where the link wraps a line number, exactly that number); a commit link's target is the commit
    template applied to exactly the text it wraps.
"""
import os
import posixpath
import re
import socket
import time

import build
import explore
import obs
import producers
import report
import runner
import term
from build import MachineryError
from explore import Violation
from lattice import base_opts, build_args

PROP = "C19"
ROOT = "/work/repo"
H40 = "0123456789abcdef0123456789abcdef01234567"

FILE_TEMPLATES = [None, "x://{host}/{path}#{line}", "edit:{path}:{line}"]
COMMIT_TEMPLATE = "https://example.org/c/{commit}/"


def template_regex(tpl, host):
    tpl = tpl or "file://{path}"
    rx = re.escape(tpl)
    rx = rx.replace(re.escape("{path}"), "(?P<path>.*?)").replace(re.escape("{line}"), "(?P<line>[0-9]*)")
    rx = rx.replace(re.escape("{host}"), re.escape(host))
    return re.compile("^" + rx + "$")


def norm(p):
    return posixpath.normpath(p)


def diff_inputs():
    """(name, input bytes, list of sections: set of acceptable repo-relative paths per section)"""
    out = []
    kinds = ["modified", "added", "deleted", "rename", "rename_change", "mode", "binary", "mode_change", "empty",
             "copy"]
    for k1 in kinds:
        for k2 in ("modified", "rename_change", "mode"):
            l1, i1 = producers.section(k1, 0, "minusplus")
            l2, i2 = producers.section(k2, 1, "ctx")
            data = b"".join(l + b"\n" for l in l1 + l2)
            secs = [set(p.decode() for p in (i["old"], i["new"]) if p != b"/dev/null") for i in (i1, i2)]
            out.append(("%s+%s" % (k1, k2), data, secs))
    # numbers beyond one digit, wrapping in side-by-side
    long = "x" * 70
    data = ("diff --git a/dir/f.rs b/dir/f.rs\n--- a/dir/f.rs\n+++ b/dir/f.rs\n@@ -98,3 +1000,3 @@ fn f()\n a\n-%s\n+%s y\n b\n"
            % (long, long)).encode()
    out.append(("numbers", data, [{"dir/f.rs"}]))
    # plain `diff -u` output of several files concatenated: no `diff` line between the files
    du = ""
    secs = []
    for i, nm in enumerate(["one.c", "dir/two.c", "three.c"]):
        du += "--- %s\t2020-01-01 00:00:00.000000000 +0000\n+++ %s\t2020-01-02 00:00:00.000000000 +0000\n" % (nm, nm)
        du += "@@ -%d,3 +%d,3 @@\n a\n-b%d\n+c%d\n d\n" % (10 * i + 1, 10 * i + 2, i, i)
        secs.append({nm})
    out.append(("diff-u-concatenated", du.encode(), secs))
    # commit line
    data = ("commit %s\nAuthor: A\n\n    msg\n\n" % H40).encode() + out[0][1]
    out.append(("commit+" + out[0][0], data, out[0][2]))
    # commit line + diffstat (its path is rewritten and linked under --relative-paths)
    data = ("commit %s\nAuthor: A\n\n    msg\n---\n f0.txt | 2 +-\n 1 file changed, 1 insertion(+), 1 deletion(-)\n\n"
            % H40).encode() + out[0][1]
    out.append(("commit+stat+" + out[0][0], data, out[0][2]))
    # the same log as `git log --color=always` hands it over (commit line and headers coloured)
    col = ("\x1b[33mcommit %s\x1b[m\x1b[33m (\x1b[m\x1b[1;36mHEAD\x1b[m\x1b[33m)\x1b[m\nAuthor: A\n\n    msg\n\n" % H40).encode() + out[0][1]
    out.append(("coloured-commit+" + out[0][0], col, out[0][2]))
    return out


def grep_input():
    lines = ["src/a.rs:7:fn main() {", "src/a.rs-8-  x", "src/a.rs:9:main()", "b c.rs:1:main"]
    return ("grep", ("\n".join(lines) + "\n").encode(), [{"src/a.rs"}, {"src/a.rs"}, {"src/a.rs"}, {"b c.rs"}])


def blame_input():
    lines = ["%s (A U Thor 2020-01-01 00:00:00 +0000 %d) code %d" % (H40[i:i + 8], i + 1, i) for i in (0, 0, 3)]
    return ("blame", ("\n".join(lines) + "\n").encode())


def check_links(out, secs, tpl, host, base, mode):
    """mode: 'diff' (sections by file header rows) | 'grep' (one section per row) | 'blame'"""
    rx = template_regex(tpl, host)
    crx = re.compile("^" + re.escape(COMMIT_TEMPLATE).replace(re.escape("{commit}"), "(?P<commit>.*)") + "$")
    rows = term.decode(out)
    sec = -1
    nlinks = 0
    rowi = 0
    cur_grep = None
    for row in rows:
        if row.broken:
            return "malformed: %s" % row.broken[0], nlinks
        if row.end_link is not None or row.start_link is not None:
            return "a hyperlink is open across a newline in row %r" % row.text[:60], nlinks
        info = obs.observe_row(row)
        if mode == "diff" and info.kind == "file":
            sec += 1
        if mode == "grep" and row.links:
            sec = min(rowi, len(secs) - 1)
        if row.text.strip():
            rowi += 1 if mode == "grep" and row.links else 0
        for target, text in row.links:
            nlinks += 1
            m = crx.match(target)
            if m:
                if m.group("commit") != text.strip():
                    return "commit link %r wraps %r" % (target, text), nlinks
                continue
            m = rx.match(target)
            if not m:
                return "link target %r does not follow the template %r" % (target, tpl or "file://{path}"), nlinks
            path = m.group("path")
            if not path.startswith("/"):
                return "file link path %r is not absolute" % path, nlinks
            if mode == "grep":
                # a link wrapping a path names the file; a link wrapping a number belongs to the
                # file named last (inline or in the header row above)
                allp = set(p for sset in secs for p in sset)
                if not text.strip().isdigit():
                    t0 = text.strip()
                    cands = [p for p in allp if t0 == p or (t0.startswith(p) and t0[len(p)] in ":-=")]
                    if not cands:
                        return "link wraps %r which does not start with a path of the input" % t0, nlinks
                    cur_grep = max(cands, key=len)
                    rest = t0[len(cur_grep):].strip(":-= ")
                    if rest.isdigit() and m.groupdict().get("line") not in (None, rest):
                        return "link wrapping %r points at line %r" % (t0, m.group("line")), nlinks
                    if not rest and m.groupdict().get("line") == "0":
                        return "link wrapping the path %r alone points at line 0" % t0, nlinks
                if norm(path) != norm(posixpath.join(base, cur_grep or "")):
                    return ("file link points at %r, the hit's file is %r" % (path, cur_grep)), nlinks
            elif mode == "diff" and secs:
                want = set(norm(posixpath.join(base, p)) for p in secs[max(sec, 0)])
                if norm(path) not in want:
                    return ("file link points at %r, the section's file is %s" % (path, sorted(want))), nlinks
            line = m.groupdict().get("line")
            t = text.strip()
            if line is not None and t.isdigit() and line != "" and line != t:
                return "link wrapping line number %r points at line %r" % (t, line), nlinks
            if line is not None and t.isdigit() and line == "":
                return "link wrapping line number %r carries no line" % t, nlinks
    return None, nlinks


def run_task(task):
    label, opts, env, caller, pty, cases, tpl, mode, base, deadline = task
    host = socket.gethostname()
    o_with = dict(opts)
    o_with["hyperlinks"] = True
    if tpl:
        o_with["hyperlinks-file-link-format"] = tpl
    o_with["hyperlinks-commit-link-format"] = COMMIT_TEMPLATE
    a_with = build_args(base_opts(o_with))
    a_without = build_args(base_opts(opts))
    drv = explore.get_driver(caller=caller, pty=pty)
    try:
        c1 = drv.mkconfig(a_with, env)
        c0 = drv.mkconfig(a_without, env)
    except explore.Rejected as e:
        return {"label": label, "rejected": str(e)[:80], "n": 0, "links": 0, "violations": []}
    viols = {}
    n = 0
    links = 0
    for name, data, secs in cases:
        r1, r0 = drv.render1(c1, data), drv.render1(c0, data)
        n += 1
        if r1.panic or r0.panic:
            continue
        err = None
        klass = None
        if term.strip_osc8(r1.out) != r0.out:
            a, b = term.strip_osc8(r1.out), r0.out
            j = 0
            while j < min(len(a), len(b)) and a[j] == b[j]:
                j += 1
            err = "with OSC 8 sequences removed the output differs from the run without hyperlinks at byte %d: %r vs %r" % (
                j, a[max(0, j - 30):j + 40], b[max(0, j - 30):j + 40])
            klass = "not-transparent"
        else:
            err, k = check_links(r1.out, secs, tpl, host, base, mode)
            links += k
            if err:
                klass = "bad-link:" + err.split(" ")[0] + err.split(" ")[1]
        if err and klass not in viols:
            v = Violation(klass, "[%s] %s" % (name, err), data.split(b"\n")[:-1])
            v.args = a_with
            v.env = env
            v.caller = caller
            v.pty = pty
            v.config_label = label
            viols[klass] = v
    drv.drop(c1)
    drv.drop(c0)
    return {"label": label, "n": n, "links": links, "violations": list(viols.values())}


def run_cwd_cases(_):
    """E4 on the real binary in real directories (a scratch repository made with `git init`): the ways delta is started
    other than as git's pager in the repository root. Each case: (label, working directory, GIT_PREFIX, what the parent
    process looks like, path as printed in the input, the file meant)."""
    import shutil
    import subprocess
    from driver import base_env
    top = os.path.join(build.BUILD, "tmp", "c19_cwd_%d" % os.getpid())
    shutil.rmtree(top, ignore_errors=True)
    repo = os.path.join(top, "repo")
    os.makedirs(os.path.join(repo, "src", "sub"))
    subprocess.run(["git", "init", "-q", repo], env=dict(base_env(), GIT_CONFIG_GLOBAL="/dev/null"), stdout=subprocess.DEVNULL,
                   stderr=subprocess.DEVNULL)
    gone = os.path.join(top, "gone")
    cases = [
        ("pager-in-root", repo, "", "git diff", "src/sub/a.txt", os.path.join(repo, "src/sub/a.txt")),
        ("pager-in-subdirectory", repo, "src/", "git diff", "src/sub/a.txt", os.path.join(repo, "src/sub/a.txt")),
        ("pager,git --relative", repo, "src/", "git diff --relative", "sub/a.txt", os.path.join(repo, "src/sub/a.txt")),
        ("pipe-in-root", repo, None, "git diff", "src/sub/a.txt", os.path.join(repo, "src/sub/a.txt")),
        ("pipe-in-subdirectory", os.path.join(repo, "src"), None, "git diff", "src/sub/a.txt", os.path.join(repo, "src/sub/a.txt")),
        ("pager,git --relative=src", repo, "", "git diff --relative=src", "sub/a.txt", os.path.join(repo, "src/sub/a.txt")),
    ]
    viols = []
    n = 0
    for label, cwd, prefix, parent, shown, meant in cases:
        env = base_env()
        env["DELTA_VERIF_PARENT_ARGS"] = parent
        if prefix is not None:
            env["GIT_PREFIX"] = prefix
        data = ("diff --git a/%s b/%s\n--- a/%s\n+++ b/%s\n@@ -1 +1 @@\n-a\n+b\n" % ((shown,) * 4)).encode()
        outs = []
        for hl in (False, True):
            a = ["--no-gitconfig", "--paging=never", "--detect-dark-light=never", "--line-numbers",
                 "--hyperlinks-file-link-format=file://{path}"] + (["--hyperlinks"] if hl else [])
            p = subprocess.run([build.BIN] + a, input=data, env=env, cwd=cwd, stdout=subprocess.PIPE, stderr=subprocess.PIPE, timeout=30)
            outs.append(p.stdout)
            n += 1
        targets = set(re.findall(rb"\x1b\]8;;file://([^\x1b\x07]*)", outs[1]))
        err = None
        if re.sub(rb"\x1b\]8;;[^\x1b\x07]*(?:\x1b\\|\x07)", b"", outs[1]) != outs[0]:
            err = ("not-transparent", "output with the links removed differs from the output without --hyperlinks")
        elif not targets:
            err = ("no-links", "no file link in the output")
        elif any(norm(t.decode().split("#")[0]) != meant for t in targets):
            err = ("wrong-target", "links point at %s, the file is %s" % (sorted(t.decode() for t in targets), meant))
        if err:
            v = Violation("cwd:%s:%s" % (err[0], label), "[%s: cwd %s, GIT_PREFIX %r, parent `%s`, path in the input %s] %s"
                          % (label, cwd.replace(top, "…"), prefix, parent, shown, err[1]), data.split(b"\n")[:-1])
            v.args = a
            v.env = {"GIT_PREFIX": prefix, "cwd": cwd.replace(top, "<scratch>")}
            v.caller = parent.split()
            viols.append(v)
    # a name git prints quoted and escaped; diffstat lines that are not plain paths, under --relative-paths
    env = base_env()
    env["DELTA_VERIF_PARENT_ARGS"] = "git show --stat -p"
    env["GIT_PREFIX"] = ""
    quoted = ('diff --git "a/src/\\303\\244 \\"q\\".txt" "b/src/\\303\\244 \\"q\\".txt"\n--- "a/src/\\303\\244 \\"q\\".txt"\n'
              '+++ "b/src/\\303\\244 \\"q\\".txt"\n@@ -1 +1 @@\n-a\n+b\n').encode()
    stat = (b"commit " + H40.encode() + b"\n\n src/{old.rs => new.rs} | 4 ++--\n old.txt => new.txt      | 2 +-\n"
            b" .../long/dir/name/file.txt | 3 ++-\n src/plain.rs | 1 +\n 4 files changed\n")
    def quoted_diff(esc):
        return ('diff --git "a/%s" "b/%s"\n--- "a/%s"\n+++ "b/%s"\n@@ -1 +1 @@\n-a\n+b\n' % (esc, esc, esc, esc)).encode()
    # escapes at the start, in the middle and at the very end of the name; every kind of escape git writes
    more_quoted = [("docs/caf\\303\\251", "docs/caf\u00e9"), ("\\303\\234bersicht", "\u00dcbersicht"),
                   ("src/\\346\\226\\207\\346\\241\\243/\\350\\257\\264\\346\\230\\216", "src/\u6587\u6863/\u8bf4\u660e"),
                   ("tab\\there", "tab\there"), ("back\\\\slash", "back\\slash"), ("end\\\\", "end\\"), ('q\\"', 'q"')]
    for label, data, extra, meant_set in [
            ("quoted-name:" + esc, quoted_diff(esc), [], {os.path.join(repo, name)}) for esc, name in more_quoted] + list((
            ("quoted-name", quoted, [], {os.path.join(repo, 'src/\u00e4 "q".txt')}),
            ("diffstat-not-a-path", stat, ["--relative-paths"], {os.path.join(repo, "src/plain.rs")}),
            ("placeholder-in-name", b"diff --git a/tpl/{line}.txt b/tpl/{line}.txt\n--- a/tpl/{line}.txt\n+++ b/tpl/{line}.txt\n"
                                    b"@@ -7 +7 @@\n-a\n+b\n", [], {os.path.join(repo, "tpl/{line}.txt")}))):
        a = ["--no-gitconfig", "--paging=never", "--detect-dark-light=never", "--line-numbers", "--hyperlinks",
             "--hyperlinks-file-link-format=file://{path}", "--hyperlinks-commit-link-format=c://{commit}"] + extra
        p = subprocess.run([build.BIN] + a, input=data, env=env, cwd=repo, stdout=subprocess.PIPE, stderr=subprocess.PIPE, timeout=30)
        n += 1
        targets = set(norm(t.decode("utf-8", "replace").split("#")[0]) for t in re.findall(rb"\x1b\]8;;file://([^\x1b\x07]*)", p.stdout))
        # (a control character in a name is percent-encoded in the URL: the link names the file after decoding)
        from urllib.parse import unquote
        targets = set(t if t in meant_set else unquote(t) for t in targets)
        if not targets or not targets <= meant_set:
            v = Violation("cwd:wrong-target:" + label, "[%s] links point at %s, the file(s) meant: %s"
                          % (label, sorted(targets), sorted(meant_set)), data.split(b"\n")[:-1])
            v.args = a
            v.env = {"GIT_PREFIX": ""}
            viols.append(v)
    # no working directory at all (the shell sits in a directory that has been removed)
    os.makedirs(gone)
    script = "cd %s && rmdir %s && exec %s --no-gitconfig --paging=never --detect-dark-light=never --line-numbers %%s" % (gone, gone, build.BIN)
    data = b"diff --git a/src/a.txt b/src/a.txt\n--- a/src/a.txt\n+++ b/src/a.txt\n@@ -1 +1 @@\n-one\n+two\n"
    outs = []
    for hl in ("", "--hyperlinks"):
        os.makedirs(gone, exist_ok=True)
        env = base_env()
        env["DELTA_VERIF_PARENT_ARGS"] = "git diff"
        p = subprocess.run(["sh", "-c", script % hl], input=data, env=env, stdout=subprocess.PIPE, stderr=subprocess.PIPE, timeout=30)
        outs.append(p.stdout)
        n += 1
    if re.sub(rb"\x1b\]8;;[^\x1b\x07]*(?:\x1b\\|\x07)", b"", outs[1]) != outs[0]:
        v = Violation("cwd:not-transparent:no-working-directory", "delta started in a directory that no longer exists: the output "
                      "of --hyperlinks with the links removed differs from the output without: %r vs %r" % (outs[1][-120:], outs[0][-120:]),
                      data.split(b"\n")[:-1])
        viols.append(v)
    shutil.rmtree(top, ignore_errors=True)
    return {"n": n, "links": 0, "violations": viols, "label": "cwd-cases"}


ASSUMPTIONS = [
    "delta's working directory is the repository root %s (as when git runs it); GIT_PREFIX in {unset, sub/dir/}" % ROOT,
    "expected absolute path = root [+ GIT_PREFIX for grep/blame callers, whose paths are relative to the user's "
    "directory] + the path in the input; a link in a file section may point at the section's old or new path",
    "families: 24 two-section diffs over 8 section kinds, numbered and wrapped hunks, commit lines, grep and blame rows",
]


def main(tier):
    t0 = time.time()
    build.ensure_built()
    deadline = t0 + (50 if tier == "quick" else 600)
    diffs = diff_inputs()
    g = grep_input()
    b = blame_input()
    tasks = []
    views = [("unified", {}), ("ln", {"line-numbers": True}), ("sbs", {"side-by-side": True, "width": "60"}),
             ("sbs-narrow", {"side-by-side": True, "width": "30", "wrap-max-lines": "1"}),
             ("hunk-file", {"hunk-header-style": "file line-number 110", "line-numbers": True}),
             ("navigate", {"navigate": True}), ("box", {"file-decoration-style": "117 box"}),
             # a raw commit line keeps git's colours, with or without the link around the hash
             ("commit-raw-ul", {"commit-style": "raw", "commit-decoration-style": "119 ul"}),
             ("commit-raw-box", {"commit-style": "raw", "commit-decoration-style": "119 box", "side-by-side": True,
                                 "width": "60"}),
             # --file-transformation changes what is displayed, never what is linked
             ("hunk-file-transformed", {"hunk-header-style": "file line-number 110", "line-numbers": True,
                                        "file-transformation": "s,f,Xf/,"})]
    for vname, vo in views:
        for tpl in FILE_TEMPLATES:
            for prefix in (None, "sub/dir/"):
                for rel in (False, True):
                    if tier == "quick" and tpl == FILE_TEMPLATES[2] and vname not in ("ln", "sbs"):
                        continue
                    env = {"cwd": ROOT}
                    if prefix:
                        env["git_prefix"] = prefix
                    o = dict(vo)
                    if rel:
                        o["relative-paths"] = True
                    label = "%s,tpl=%s,prefix=%s,relative=%s" % (vname, tpl, prefix, rel)
                    tasks.append((label, o, env, ["git", "diff"], None, diffs, tpl, "diff", ROOT))
                    if vname in ("unified", "ln"):
                        tasks.append((label + ",pty", o, env, ["git", "log", "-p"], (24, 80), diffs, tpl, "diff", ROOT))
    for tpl in FILE_TEMPLATES:
        for prefix in (None, "sub/dir/"):
            env = {"cwd": ROOT}
            if prefix:
                env["git_prefix"] = prefix
            base = posixpath.join(ROOT, prefix or "")
            for go in ({}, {"grep-output-type": "ripgrep"}, {"navigate": True}):
                tasks.append(("grep,tpl=%s,prefix=%s,%s" % (tpl, prefix, go), go, env, ["git", "grep", "-n", "main"],
                              None, [g], tpl, "grep", base))
            tasks.append(("blame,tpl=%s,prefix=%s" % (tpl, prefix), {}, env, ["git", "blame", "f.rs"], None,
                          [(b[0], b[1], [])], tpl, "blame", base))
            # commit links in blame rows exist on a terminal only; formats that pad / cut the commit field
            for bf in (None, "{commit:<12} {author:<10}", "{timestamp:<15} {author:<15.14} {commit:>12}",
                       "{commit:^14.9}|{author:<6.5}"):
                bo = {"blame-format": bf} if bf else {}
                tasks.append(("blame,pty,tpl=%s,prefix=%s,format=%s" % (tpl, prefix, bf), bo, env,
                              ["git", "blame", "f.rs"], (24, 100), [(b[0], b[1], [])], tpl, "blame", base))
    res = explore.pmap(run_task, [t + (deadline,) for t in tasks])
    res += explore.pmap(run_cwd_cases, [None])
    n = sum(r["n"] for r in res)
    links = sum(r["links"] for r in res)
    viols = []
    for r in res:
        viols.extend(r["violations"])
    best = {}
    for v in viols:
        best.setdefault(v.klass, v)
    viols = sorted(best.values(), key=lambda v: v.klass)
    if links < 100 and not viols:
        raise MachineryError("vacuous: only %d links observed" % links)
    cov = {
        "evaluations": n * 2, "distinct_nontrivial": links,
        "rule": "evaluation = one render (each input is rendered with and without hyperlinks); non-trivial = "
                "hyperlinks observed and checked against the reference target",
        "samples": [{"input": diffs[0][1].decode(), "sections": [sorted(s) for s in diffs[0][2]]}],
        "configurations": len(tasks), "inputs": len(diffs) + 2, "exhaustive": True,
        "rejected": [r["label"] for r in res if "rejected" in r],
    }
    return report.finish(PROP, tier, "exploration", cov, viols, ASSUMPTIONS, t0, runner.seed())
