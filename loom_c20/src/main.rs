//! C20: exhaustive exploration (loom) of the calling-process protocol, on the text of
//! /repo/src/utils/process.rs itself (see build.rs for the rewrites).
#![allow(dead_code, unused_imports, clippy::all)]

use std::cell::RefCell;
use std::sync::atomic::{AtomicUsize as StdAtomicUsize, Ordering as StdOrdering};

pub mod utils {
    pub const DELTA_ATOMIC_ORDERING: std::sync::atomic::Ordering = std::sync::atomic::Ordering::SeqCst;
    pub mod process {
        include!(concat!(env!("OUT_DIR"), "/process_loom.rs"));
    }
}
use utils::process::{CallingProcess, describe_calling_process, ProcessArgs};

/// std's own `Condvar::wait_while` loop, for loom's Condvar (which lacks it).
pub trait CondvarExt {
    fn wait_while<'a, T, F>(
        &self,
        guard: loom::sync::MutexGuard<'a, T>,
        condition: F,
    ) -> std::sync::LockResult<loom::sync::MutexGuard<'a, T>>
    where
        F: FnMut(&mut T) -> bool;

    /// loom does not model time. For a timed wait the harness models the adversarial case: the
    /// timeout elapses before any notification arrives (which real time permits for every duration).
    fn wait_timeout_while<'a, T, F>(
        &self,
        guard: loom::sync::MutexGuard<'a, T>,
        dur: std::time::Duration,
        condition: F,
    ) -> std::sync::LockResult<(loom::sync::MutexGuard<'a, T>, TimedOut)>
    where
        F: FnMut(&mut T) -> bool;
}

/// stands in for std's WaitTimeoutResult
pub struct TimedOut(pub bool);
impl TimedOut {
    pub fn timed_out(&self) -> bool {
        self.0
    }
}

impl CondvarExt for loom::sync::Condvar {
    fn wait_timeout_while<'a, T, F>(
        &self,
        mut guard: loom::sync::MutexGuard<'a, T>,
        _dur: std::time::Duration,
        mut condition: F,
    ) -> std::sync::LockResult<(loom::sync::MutexGuard<'a, T>, TimedOut)>
    where
        F: FnMut(&mut T) -> bool,
    {
        let timed_out = condition(&mut *guard);
        Ok((guard, TimedOut(timed_out)))
    }

    fn wait_while<'a, T, F>(
        &self,
        mut guard: loom::sync::MutexGuard<'a, T>,
        mut condition: F,
    ) -> std::sync::LockResult<loom::sync::MutexGuard<'a, T>>
    where
        F: FnMut(&mut T) -> bool,
    {
        while condition(&mut *guard) {
            guard = self.wait(guard)?;
        }
        Ok(guard)
    }
}

loom::thread_local! {
    static HANDLES: RefCell<Vec<loom::thread::JoinHandle<()>>> = RefCell::new(Vec::new());
}

pub fn keep_handle(h: loom::thread::JoinHandle<()>) {
    HANDLES.with(|v| v.borrow_mut().push(h));
}

fn join_background() {
    let hs: Vec<_> = HANDLES.with(|v| v.borrow_mut().drain(..).collect());
    for h in hs {
        h.join().unwrap();
    }
}

fn parse(args: &[&str]) -> CallingProcess {
    let v: Vec<String> = args.iter().map(|s| s.to_string()).collect();
    match describe_calling_process(&v) {
        ProcessArgs::Args(c) => c,
        _ => CallingProcess::None,
    }
}

/// what the background scan "finds" (harness constant)
pub fn harness_guess() -> CallingProcess {
    parse(&["git", "diff", "--stat"])
}

static SCHEDULES: StdAtomicUsize = StdAtomicUsize::new(0);
static OUTCOMES_KNOWN: StdAtomicUsize = StdAtomicUsize::new(0);

/// known: 0 = delta launches nothing; 1 = it launches a command it understands (published as known);
/// 2 = it launches a command it has no special handling for (`git status`): that command is what is reported
/// (CallingProcess::None), not the guess
fn scenario(known: usize, main_queries: usize, thread_queries: usize, n_threads: usize) {
    use utils::process::*;
    SCHEDULES.fetch_add(1, StdOrdering::SeqCst);
    start_determining_calling_process_in_thread();
    let known_args = ["git", "grep", "-n", "x"];
    let unparsed_args = ["git", "status"];
    let expected = if known == 1 { parse(&known_args) } else if known == 2 { CallingProcess::None } else { harness_guess() };
    if known == 1 {
        let v: Vec<String> = known_args.iter().map(|s| s.to_string()).collect();
        set_calling_process(&v);
    } else if known == 2 {
        let v: Vec<String> = unparsed_args.iter().map(|s| s.to_string()).collect();
        assert!(!matches!(describe_calling_process(&v), ProcessArgs::Args(_)), "harness: `git status` is described");
        set_calling_process(&v);
    }
    let mut qs = Vec::new();
    for _ in 0..(if thread_queries > 0 { n_threads } else { 0 }) {
        let exp2 = expected.clone();
        qs.push(loom::thread::spawn(move || {
            for _ in 0..thread_queries {
                let g = calling_process();
                let val = (*g).clone();
                drop(g);
                assert_ne!(val, CallingProcess::Pending, "query returned an unfinished answer");
                assert_eq!(val, exp2, "query thread: wrong calling process");
            }
        }));
    }
    for _ in 0..main_queries {
        let g = calling_process();
        let val = (*g).clone();
        drop(g);
        assert_ne!(val, CallingProcess::Pending, "query returned an unfinished answer");
        assert_eq!(val, expected, "main thread: wrong calling process (known command overwritten or stale)");
    }
    for q in qs {
        q.join().unwrap();
    }
    join_background();
    // after everything has finished the published value must still be the expected one
    let g = calling_process();
    assert_eq!(*g, expected, "final value wrong");
}

fn main() {
    let args: Vec<String> = std::env::args().collect();
    if args.len() < 6 {
        eprintln!("usage: loom_c20 <known 0|1> <main queries> <thread queries> <query threads> <preemption bound | none>");
        std::process::exit(2);
    }
    let known: usize = args[1].parse().unwrap();
    let mq: usize = args[2].parse().unwrap();
    let tq: usize = args[3].parse().unwrap();
    let mut b = loom::model::Builder::new();
    let nt: usize = args[4].parse().unwrap();
    if args[5] != "none" {
        b.preemption_bound = Some(args[5].parse().unwrap());
    }
    b.check(move || scenario(known, mq, tq, nt));
    println!("OK schedules={}", SCHEDULES.load(StdOrdering::SeqCst));
}
