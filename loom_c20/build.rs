// Binds the loom harness to the real source: reads <repo>/src/utils/process.rs from the working
// tree, drops its #[cfg(test)] tail and applies anchored textual rewrites, each of which must match
// exactly once (otherwise the build fails: machinery error, never a verdict).
use std::{env, fs, path::PathBuf};

fn replace_once(src: &str, from: &str, to: &str) -> String {
    let n = src.matches(from).count();
    if n != 1 {
        panic!("rewrite anchor {:?} matches {} times (expected exactly 1)", from, n);
    }
    src.replacen(from, to, 1)
}

fn main() {
    let repo = env::var("VERIF_REPO").unwrap_or_else(|_| "/repo".to_string());
    let path = format!("{repo}/src/utils/process.rs");
    println!("cargo:rerun-if-changed={path}");
    println!("cargo:rerun-if-env-changed=VERIF_REPO");
    let mut s = fs::read_to_string(&path).expect("cannot read process.rs");
    // 1. cut the test module
    let cut = s.find("#[cfg(test)]\npub mod tests").expect("tests module anchor not found");
    s.truncate(cut);
    // 2. synchronisation primitives -> loom
    s = replace_once(&s, "use std::sync::atomic::AtomicUsize;", "use loom::sync::atomic::AtomicUsize;");
    s = replace_once(
        &s,
        "use std::sync::{Arc, Condvar, Mutex, MutexGuard};",
        "use loom::sync::{Arc, Condvar, Mutex, MutexGuard};\nuse crate::CondvarExt;",
    );
    s = replace_once(&s, "use lazy_static::lazy_static;", "use loom::lazy_static;");
    // 3. the const-initialised static atomic (not const-constructible under loom)
    s = replace_once(
        &s,
        "static CALLER_INFO_SOURCE: AtomicUsize = AtomicUsize::new(CALLER_GUESSED);",
        "lazy_static! { static ref CALLER_INFO_SOURCE: AtomicUsize = AtomicUsize::new(CALLER_GUESSED); }",
    );
    // 4. the thread: loom's builder, and keep the join handle (loom needs every thread joined)
    s = replace_once(&s, "std::thread::Builder::new()", "loom::thread::Builder::new()");
    let f = s.find("pub fn start_determining_calling_process_in_thread()").expect("fn anchor");
    let end = f + s[f..].find("\n}\n").expect("end of fn");
    let body = &s[f..end];
    let last = body.rfind(".unwrap();").expect("unwrap anchor");
    let new_body = format!("{}.map(crate::keep_handle).unwrap();{}", &body[..last], &body[last + ".unwrap();".len()..]);
    s = format!("{}{}{}", &s[..f], new_body, &s[end..]);
    // 5. the scan of the process table -> a harness constant
    s = replace_once(
        &s,
        "fn determine_calling_process() -> CallingProcess {\n    calling_process_cmdline(ProcInfo::new(), describe_calling_process)\n        .unwrap_or(CallingProcess::None)\n}",
        "fn determine_calling_process() -> CallingProcess {\n    crate::harness_guess()\n}",
    );
    let out = PathBuf::from(env::var("OUT_DIR").unwrap()).join("process_loom.rs");
    fs::write(out, s).unwrap();
}
