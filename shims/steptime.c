/* LD_PRELOAD shim: own the wall clock. clock_gettime(CLOCK_REALTIME) answers VERIF_TIME_BASE (seconds since
 * the epoch) plus VERIF_TIME_STEP_MS milliseconds for every call made so far in this process, so that "time
 * passes while delta runs" is a controlled, replayable input (every other clock is passed through). */
#define _GNU_SOURCE
#include <stdlib.h>
#include <time.h>
#include <dlfcn.h>
#include <sys/time.h>

static long long calls = 0;

static int stepped(struct timespec *tp) {
    const char *b = getenv("VERIF_TIME_BASE");
    const char *s = getenv("VERIF_TIME_STEP_MS");
    if (!b) return 0;
    long long base = atoll(b);
    long long step = s ? atoll(s) : 0;
    long long ms = calls * step;
    calls++;
    tp->tv_sec = base + ms / 1000;
    tp->tv_nsec = (ms % 1000) * 1000000L;
    return 1;
}

int clock_gettime(clockid_t clk, struct timespec *tp) {
    static int (*real)(clockid_t, struct timespec *) = 0;
    if (clk == CLOCK_REALTIME && stepped(tp)) return 0;
    if (!real) real = dlsym(RTLD_NEXT, "clock_gettime");
    return real(clk, tp);
}

int gettimeofday(struct timeval *tv, void *tz) {
    struct timespec ts;
    (void)tz;
    if (stepped(&ts)) { tv->tv_sec = ts.tv_sec; tv->tv_usec = ts.tv_nsec / 1000; return 0; }
    clock_gettime(CLOCK_REALTIME, &ts);
    tv->tv_sec = ts.tv_sec; tv->tv_usec = ts.tv_nsec / 1000;
    return 0;
}
