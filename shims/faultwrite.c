/* LD_PRELOAD shim: fail the k-th write(2) on a chosen descriptor with EPIPE (and all later ones),
 * counting writes to that descriptor. VERIF_FAULT_FD = fd (default 1), VERIF_FAULT_K = k
 * (1-based; unset or 0 = never fail), VERIF_FAULT_COUNT_FILE = where to store the number of
 * writes attempted on that fd (written at exit), VERIF_FAULT_ERRNO = errno to use (default EPIPE).
 * SIGPIPE is not raised by the shim; a real broken pipe would be delivered as EPIPE as well because
 * Rust ignores SIGPIPE at startup. */
#define _GNU_SOURCE
#include <dlfcn.h>
#include <errno.h>
#include <stdio.h>
#include <stdlib.h>
#include <string.h>
#include <unistd.h>
#include <sys/uio.h>

static long count = 0;
static int target_fd = -2;
static long fail_k = -1;
static int err_no = EPIPE;

extern char *program_invocation_short_name;

static void init(void) {
    if (target_fd != -2) return;
    /* only the delta process itself is subject to faults, not the children it spawns */
    if (strcmp(program_invocation_short_name, "delta") != 0) { target_fd = -1; fail_k = 0; return; }
    const char *s = getenv("VERIF_FAULT_FD");
    target_fd = s ? atoi(s) : 1;
    s = getenv("VERIF_FAULT_K");
    fail_k = s ? atol(s) : 0;
    s = getenv("VERIF_FAULT_ERRNO");
    if (s) err_no = atoi(s);
}

static void report(void) {
    const char *f = getenv("VERIF_FAULT_COUNT_FILE");
    if (!f || target_fd < 0) return;
    FILE *fp = fopen(f, "w");
    if (fp) { fprintf(fp, "%ld\n", count); fclose(fp); }
}

__attribute__((constructor)) static void setup(void) { init(); atexit(report); }

ssize_t write(int fd, const void *buf, size_t n) {
    static ssize_t (*real)(int, const void *, size_t) = 0;
    if (!real) real = dlsym(RTLD_NEXT, "write");
    init();
    if (fd == target_fd) {
        count++;
        if (fail_k > 0 && count >= fail_k) { errno = err_no; return -1; }
    }
    return real(fd, buf, n);
}

ssize_t writev(int fd, const struct iovec *iov, int iovcnt) {
    static ssize_t (*real)(int, const struct iovec *, int) = 0;
    if (!real) real = dlsym(RTLD_NEXT, "writev");
    init();
    if (fd == target_fd) {
        count++;
        if (fail_k > 0 && count >= fail_k) { errno = err_no; return -1; }
    }
    return real(fd, iov, iovcnt);
}
