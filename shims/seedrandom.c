/* LD_PRELOAD shim: make getrandom(2) deterministic so that Rust's RandomState (HashMap iteration
 * order) is a controlled, replayable input. Every byte returned is VERIF_RANDOM_SEED (0..255)
 * XOR a running counter, so different seeds give different SipHash keys. */
#define _GNU_SOURCE
#include <stdlib.h>
#include <string.h>
#include <sys/types.h>
#include <unistd.h>
#include <dlfcn.h>
#include <sys/syscall.h>

static unsigned char seed_byte(void) {
    const char *s = getenv("VERIF_RANDOM_SEED");
    return s ? (unsigned char)atoi(s) : 0;
}

ssize_t getrandom(void *buf, size_t buflen, unsigned int flags) {
    (void)flags;
    unsigned char s = seed_byte();
    unsigned char *p = buf;
    for (size_t i = 0; i < buflen; i++) p[i] = (unsigned char)(s * 31u + i * 7u + 1u);
    return (ssize_t)buflen;
}

int getentropy(void *buf, size_t buflen) {
    return getrandom(buf, buflen, 0) == (ssize_t)buflen ? 0 : -1;
}
