"""Build /repo's current working tree with the verification hooks enabled.

Every check calls ensure_built() first, so that edits under /repo are picked up. A flock
serialises concurrent cargo invocations; an up-to-date tree costs ~0.3 s.
"""
import fcntl
import os
import subprocess
import sys
import time

VERIF = os.path.dirname(os.path.dirname(os.path.abspath(__file__)))
REPO = os.environ.get("VERIF_REPO", "/repo")
BUILD = os.path.join(VERIF, ".build")
TARGET = os.path.join(BUILD, "target")
BIN = os.path.join(TARGET, "release", "delta")
GUARD = "dandavison_delta_verif"


class MachineryError(Exception):
    """Something in the verification machinery (not in delta) went wrong: exit 2."""


def cargo_env():
    env = dict(os.environ)
    env["RUSTFLAGS"] = "--cfg " + GUARD
    env["CARGO_PROFILE_RELEASE_OVERFLOW_CHECKS"] = "true"
    env["CARGO_TARGET_DIR"] = TARGET
    env["CARGO_NET_OFFLINE"] = "true"
    return env


def ensure_built(quiet=True):
    os.makedirs(BUILD, exist_ok=True)
    lock = open(os.path.join(BUILD, "cargo.lock"), "w")
    fcntl.flock(lock, fcntl.LOCK_EX)
    try:
        t0 = time.time()
        p = subprocess.run(
            ["cargo", "build", "--release", "--offline"],
            cwd=REPO, env=cargo_env(),
            stdout=subprocess.PIPE, stderr=subprocess.STDOUT)
        if p.returncode != 0:
            sys.stderr.write(p.stdout.decode("utf-8", "replace")[-6000:])
            raise MachineryError("cargo build of /repo with hooks failed")
        if not quiet:
            sys.stderr.write("build: %.1fs\n" % (time.time() - t0))
    finally:
        fcntl.flock(lock, fcntl.LOCK_UN)
        lock.close()
    return BIN


SHIMS = os.path.join(BUILD, "shims")


def ensure_shims():
    p = subprocess.run(["make", "-s", "-C", os.path.join(VERIF, "shims"), "OUT=" + SHIMS],
                       stdout=subprocess.PIPE, stderr=subprocess.STDOUT)
    if p.returncode != 0:
        raise MachineryError("building shims failed: " + p.stdout.decode())
    return SHIMS


if __name__ == "__main__":
    ensure_shims()
    print(ensure_built(quiet=False))
