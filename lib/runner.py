"""Common main() plumbing for checks: build, run tasks in parallel, CLI conformance, evidence."""
import os
import sys
import time

import build
import explore
import report
from build import MachineryError
from driver import Driver, run_cli


def tier_from_args(argv):
    tier = os.environ.get("VERIF_TIER", "quick")
    for i, a in enumerate(argv):
        if a == "--tier" and i + 1 < len(argv):
            tier = argv[i + 1]
    if tier not in ("quick", "thorough"):
        raise MachineryError("unknown tier %r" % tier)
    return tier


def seed():
    try:
        return int(os.environ.get("VERIF_SEED", "0"))
    except ValueError:
        return 0


def cli_conformance(cases, limit=60):
    """cases: list of (args, input bytes, caller or None). Each is rendered by the in-process
    driver and by the plain command line `delta <args> < input`; outputs must be byte-identical.
    Returns (n_checked, list of mismatch descriptions)."""
    cases = cases[:limit]
    if not cases:
        return 0, []
    mism = []
    drivers = {}
    n = 0
    for args, data, caller in cases:
        key = tuple(caller) if caller else None
        d = drivers.get(key)
        if d is None:
            d = drivers[key] = Driver(caller=caller)
        try:
            cid = d.mkconfig(args)
            r = d.render1(cid, data)
            d.drop(cid)
        except Exception as e:
            mism.append("driver failed for %r: %s" % (args, e))
            continue
        if r.panic:
            continue
        status, out, err = run_cli(args, data, caller=caller)
        n += 1
        if out != r.out or status != 0:
            mism.append("CLI and driver disagree for args=%r input=%r: status=%s\n cli=%r\n drv=%r"
                        % (args, data, status, out[:300], r.out[:300]))
    for d in drivers.values():
        d.shutdown()
    return n, mism


def run_e1(prop, tier, tasks, task_fn, assumptions, wall_cap, coverage_extra=None,
           level="model_checking", conformance=True, extra_violations=None):
    """tasks: list of task tuples WITHOUT the deadline (appended here). task_fn returns the dict
    produced by props' run_task. Returns exit code."""
    t0 = time.time()
    build.ensure_built()
    deadline = t0 + wall_cap
    results = explore.pmap(task_fn, [t + (deadline,) for t in tasks])
    states = transitions = renders = 0
    maxd = 0
    snaps = set()
    outs = set()
    kinds = {}
    caps = []
    samples = []
    viols = []
    rejected = []
    per_spec = {}
    for r in results:
        if "rejected" in r:
            rejected.append((r["label"], r["rejected"][:100]))
            continue
        states += r["states"]
        transitions += r["transitions"]
        renders += r["renders"]
        maxd = max(maxd, r["max_depth"])
        snaps |= r["snapshots"]
        outs |= r["step_outputs"]
        for k, v in r["kinds"].items():
            kinds[k] = kinds.get(k, 0) + v
        if r["cap_hit"]:
            caps.append("%s/%s: %s" % (r["spec"], r["label"], r["cap_hit"]))
        if r["samples"] and len(samples) < 6:
            samples.append({"config": r["label"], "history": r["samples"][0]})
        key = "/".join(str(x) for x in r["spec"])
        ps = per_spec.setdefault(key, {"configs": 0, "states": 0, "transitions": 0})
        ps["configs"] += 1
        ps["states"] += r["states"]
        ps["transitions"] += r["transitions"]
        viols.extend(r["violations"])
    viols.extend(extra_violations or [])
    # dedup violations by class: keep the shortest history
    best = {}
    for v in viols:
        cur = best.get(v.klass)
        if cur is None or len(v.history or []) < len(cur.history or []):
            best[v.klass] = v
    viols = sorted(best.values(), key=lambda v: v.klass)
    nconf = 0
    conf_mism = []
    if conformance:
        cases = []
        for r in results:
            if "rejected" in r or not r.get("samples"):
                continue
            for h in r["samples"][:1]:
                data = b"".join(l.encode("latin-1") + b"\n" for l in h)
                cases.append((r.get("args"), data, r.get("caller")))
        cases = [c for c in cases if c[0] is not None]
        step = max(1, len(cases) // 40)
        off = seed() % step
        nconf, conf_mism = cli_conformance(cases[off::step])
        if conf_mism:
            raise MachineryError("CLI conformance failed (driver does not represent the binary):\n"
                                 + "\n".join(conf_mism[:3]))
    if not transitions:
        raise MachineryError("no transitions explored")
    cov = {
        "states": states, "transitions": transitions,
        "traces_validated_against_impl": renders + nconf,
        "samples": samples or [{"note": "search too shallow for depth-3 samples"}],
        "renders_of_real_code": renders, "cli_conformance_replays": nconf,
        "max_depth": maxd, "distinct_snapshots": len(snaps),
        "distinct_step_outputs": len(outs), "transitions_per_line_kind": kinds,
        "per_search": per_spec, "configurations_rejected_by_delta": rejected,
        "caps_hit": caps, "exhaustive": not caps,
    }
    if coverage_extra:
        cov.update(coverage_extra)
    return report.finish(prop, tier, level, cov, viols, assumptions, t0, seed())


def main_wrap(fn):
    try:
        code = fn()
    except MachineryError as e:
        sys.stderr.write("MACHINERY ERROR: %s\n" % e)
        sys.exit(2)
    sys.exit(code)
