"""E1: explicit-state breadth-first search over delta's real line machine.

A state is represented by the input history that reaches it; build(h) is one render of h by the
real code with tracing (hook H2). The key of a state is (H2 snapshot after the last line, oracle
model state, producer state); a state already seen is not expanded again. For every transition
the oracle sees exactly the bytes written during that step, and the bytes of the end-of-input
flush from the new state.
"""
import hashlib
import multiprocessing
import os
import sys
import time
import traceback

from build import MachineryError
from driver import Driver, DriverDied, Hang, Rejected

_SNAPSHOT_COMPLETE = None
# fields the H2 snapshot leaves out on purpose (DESIGN 2.1: overwritten before read / immutable / covered by name)
_SNAPSHOT_EXEMPT = {"line", "raw_line", "painter", "config", "writer", "syntax", "highlighter",
                    "line_numbers_data", "merge_conflict_lines", "merge_conflict_commit_names"}


def snapshot_complete():
    """Does the H2 snapshot (src/verif_hooks.rs) name every mutable field the tree's StateMachine and Painter have
    now? Deduplicating on an incomplete snapshot would merge states with different futures (a field added by a later
    change); the search then keys states by their whole history instead - slower, never unsound."""
    global _SNAPSHOT_COMPLETE
    if _SNAPSHOT_COMPLETE is None:
        import re
        import build
        try:
            hooks = open(os.path.join(build.REPO, "src/verif_hooks.rs")).read()
            body = hooks[hooks.index("fn snapshot("):hooks.index("pub fn boundary(")]
            missing = []
            for path, struct, var in (("src/delta.rs", "pub struct StateMachine", "sm"),
                                      ("src/paint.rs", "pub struct Painter", "p")):
                src = open(os.path.join(build.REPO, path)).read()
                i = src.index(struct)
                fields = re.findall(r"^    pub (\w+):", src[i:src.index("\n}\n", i)], re.M)
                missing += ["%s.%s" % (var, f) for f in fields
                            if f not in _SNAPSHOT_EXEMPT and not re.search(r"\b%s\.%s\b" % (var, f), body)]
            _SNAPSHOT_COMPLETE = not missing
            if missing:
                sys.stderr.write("note: H2 snapshot does not cover %s - states are keyed by their history\n"
                                 % ", ".join(missing))
        except (OSError, ValueError):
            _SNAPSHOT_COMPLETE = False
    return _SNAPSHOT_COMPLETE


class Violation(object):
    def __init__(self, klass, message, history=None, step=None, expected=None, observed=None,
                 extra=None):
        self.klass = klass          # short violation class (used for dedup and known findings)
        self.message = message
        self.history = history      # list of bytes lines
        self.step = step
        self.expected = expected
        self.observed = observed
        self.extra = extra or {}
        self.args = None
        self.env = None
        self.caller = None
        self.pty = None
        self.config_label = None

    def to_json(self):
        def enc(x):
            if isinstance(x, bytes):
                return x.decode("latin-1")
            if isinstance(x, (list, tuple)):
                return [enc(y) for y in x]
            if isinstance(x, dict):
                return {str(k): enc(v) for k, v in x.items()}
            return x
        return {
            "class": self.klass, "message": self.message,
            "input_lines_latin1": enc(self.history), "step": self.step,
            "expected": enc(self.expected), "observed": enc(self.observed),
            "extra": enc(self.extra), "args": self.args, "env": self.env,
            "caller": self.caller, "pty": self.pty, "config": self.config_label,
        }


class Stats(object):
    def __init__(self):
        self.states = 0
        self.transitions = 0
        self.renders = 0
        self.max_depth = 0
        self.snapshots = set()
        self.step_outputs = set()
        self.kinds = {}
        self.cap_hit = None
        self.samples = []

    def merge_dict(self):
        return {
            "states": self.states, "transitions": self.transitions, "renders": self.renders,
            "max_depth": self.max_depth, "snapshots": self.snapshots,
            "step_outputs": self.step_outputs, "kinds": self.kinds, "cap_hit": self.cap_hit,
            "samples": self.samples,
        }


def crash_site(msg):
    """source location of a panic message ("panicked at src/x.rs:12:5:"), for classing"""
    import re
    m = re.search(r"panicked at ([^\s:]+:\d+)", msg or "")
    return m.group(1) if m else (msg or "")[:60]


def line_word(line):
    w = line.split(b" ", 1)[0][:12].decode("latin-1")
    if w[:1] in "+- " and not w.startswith(("---", "+++")):
        return "hunkline(%s)" % w[:2].rstrip("abcdefghijklmnopqrstuvwxyz")
    return w


def h64(b):
    if isinstance(b, str):
        b = b.encode("utf-8", "surrogateescape")
    return hashlib.blake2b(b, digest_size=8).digest()


class Problem(object):
    """What a search explores. Subclass and override."""

    #: maximum number of input lines in a history
    max_depth = 8

    def initial(self):
        """-> (producer_state, model_state)"""
        raise NotImplementedError

    def successors(self, pstate):
        """-> list of (line bytes (no newline), new producer state, kind label)"""
        raise NotImplementedError

    def step(self, model, line, kind, out, pstate):
        """oracle for one transition: returns new model state (hashable). Raise ViolationError."""
        raise NotImplementedError

    def eof(self, model, out, pstate):
        """oracle for the end-of-input flush from a state. Raise ViolationError."""
        return None

    def model_key(self, model):
        return model

    def crashed(self, what, msg, hist):
        """a render did not return normally (panic / hang / driver death / io error)"""
        raise ViolationError("crash:" + what + ":" + crash_site(msg), "%s: %s" % (what, msg),
                             observed=msg)

    def can_end(self, pstate):
        """may the input legally end in this producer state? (eof oracle applied only then)"""
        return True

    def whole(self, hist, res, pstate):
        """optional oracle on the whole render result of a history"""
        return None

    def use_snapshot(self):
        return True


class ViolationError(Exception):
    def __init__(self, klass, message, expected=None, observed=None, extra=None):
        Exception.__init__(self, message)
        self.klass = klass
        self.expected = expected
        self.observed = observed
        self.extra = extra


def bfs(problem, driver, cid, stats=None, batch=256, max_states=None, deadline=None,
        max_violations=12, dedup=True):
    """Runs the search; returns (stats, list of Violation). Violations are deduplicated by class
    (first = shortest history, BFS order)."""
    stats = stats or Stats()
    violations = []
    vclasses = set()
    p0, m0 = problem.initial()
    frontier = [([], p0, m0)]
    seen = set()
    stats.states += 1
    depth = 0
    while frontier and depth < problem.max_depth:
        depth += 1
        nxt = []
        # enumerate all transitions of this level
        trans = []
        for hist, ps, model in frontier:
            for line, ps2, kind in problem.successors(ps):
                trans.append((hist, line, ps2, kind, model))
        for i in range(0, len(trans), batch):
            if deadline and time.time() > deadline:
                stats.cap_hit = "wall cap at depth %d (levels below fully covered)" % depth
                return stats, violations
            chunk = trans[i:i + batch]
            inputs = [b"".join(l + b"\n" for l in hist) + line + b"\n"
                      for hist, line, _, _, _ in chunk]
            n = depth
            try:
                results = driver.render(cid, inputs, trace=True, trace_from=n)
            except (Hang, DriverDied) as e:
                # find the culprit one by one
                results = []
                for inp in inputs:
                    try:
                        results.append(driver.render(cid, [inp], trace=True, trace_from=n)[0])
                    except (Hang, DriverDied) as e2:
                        results.append(e2)
            stats.renders += len(chunk)
            for (hist, line, ps2, kind, model), res in zip(chunk, results):
                stats.transitions += 1
                stats.kinds[kind] = stats.kinds.get(kind, 0) + 1
                h2 = hist + [line]
                if isinstance(res, Exception) or res.panic or res.ioerr:
                    what = ("hang" if isinstance(res, Hang) else
                            "died" if isinstance(res, DriverDied) else
                            "panic" if res.panic else "ioerr")
                    msg = str(res) if isinstance(res, Exception) else (res.panic or res.ioerr)
                    try:
                        problem.crashed(what, msg, h2)
                    except ViolationError as ve:
                        if ve.klass not in vclasses:
                            vclasses.add(ve.klass)
                            violations.append(Violation(ve.klass, str(ve), h2, n, ve.expected,
                                                        ve.observed, ve.extra))
                    continue
                tr = res.trace
                if len(tr) != n + 2:
                    raise MachineryError("trace length %d for %d lines" % (len(tr), n))
                off_before, off_after, off_end = tr[n - 1][0], tr[n][0], tr[n + 1][0]
                if off_end != len(res.out):
                    raise MachineryError("final trace offset != output length")
                step_out = res.out[off_before:off_after]
                flush_out = res.out[off_after:]
                stats.step_outputs.add(h64(step_out))
                def record(ve, phase):
                    # class = what went wrong + where (first word of the triggering line)
                    klass = "%s:%s%s" % (ve.klass, phase, line_word(line))
                    if klass not in vclasses:
                        vclasses.add(klass)
                        violations.append(Violation(klass, str(ve), h2, n, ve.expected,
                                                    ve.observed, ve.extra))
                try:
                    model2 = problem.step(model, line, kind, step_out, ps2)
                except ViolationError as ve:
                    record(ve, "at:")
                    if len(violations) >= max_violations:
                        return stats, violations
                    continue
                # a violation in the end-of-input flush does not invalidate the state reached:
                # report it and keep expanding
                try:
                    if problem.can_end(ps2):
                        problem.eof(model2, flush_out, ps2)
                    problem.whole(h2, res, ps2)
                except ViolationError as ve:
                    record(ve, "eof-after:")
                    if len(violations) >= max_violations:
                        return stats, violations
                snap = tr[n][1] if problem.use_snapshot() and snapshot_complete() else b"\n".join(h2)
                key = (h64(snap), problem.model_key(model2), ps2)
                stats.snapshots.add(key[0])
                if dedup and key in seen:
                    continue
                seen.add(key)
                stats.states += 1
                if len(stats.samples) < 3 and depth >= 3:
                    stats.samples.append([l.decode("latin-1") for l in h2])
                if max_states and stats.states >= max_states:
                    stats.cap_hit = "state cap %d at depth %d" % (max_states, depth)
                    return stats, violations
                nxt.append((h2, ps2, model2))
        stats.max_depth = depth
        frontier = nxt
    return stats, violations


def render_robust(driver, cid, inputs, trace=False, trace_from=0, timeout=None):
    """render a batch; if the driver hangs or dies, render one by one and return the exception
    object in place of the result for the culprit(s)"""
    try:
        return driver.render(cid, inputs, trace=trace, trace_from=trace_from, timeout=timeout)
    except (Hang, DriverDied):
        out = []
        for inp in inputs:
            try:
                out.append(driver.render(cid, [inp], trace=trace, trace_from=trace_from,
                                         timeout=timeout or 5.0)[0])
            except (Hang, DriverDied) as e:
                out.append(e)
        return out


# ---------------------------------------------------------------------------------------------
# parallel map over independent tasks, each worker process owning its drivers

_WORKER = {}


def get_driver(caller=None, pty=None, extra_env=None, cwd=None):
    key = (tuple(caller) if caller else None, pty is not None,
           tuple(sorted((extra_env or {}).items())), cwd)
    d = _WORKER.get(key)
    if d is None:
        d = Driver(caller=caller, pty=pty, extra_env=extra_env, cwd=cwd)
        _WORKER[key] = d
    elif pty is not None and d.pty != pty:
        d.resize(*pty)
    return d


def _run_task(arg):
    fn, task = arg
    try:
        return ("ok", fn(task))
    except MachineryError as e:
        return ("machinery", "%s\n%s" % (e, traceback.format_exc()))
    except Exception as e:
        return ("machinery", "%s\n%s" % (e, traceback.format_exc()))


def _shutdown():
    for d in _WORKER.values():
        try:
            d.shutdown()
        except Exception:
            pass


def pmap(fn, tasks, nproc=None, chunksize=1):
    """fn must be a module-level function. Returns list of results in task order. Raises
    MachineryError if any task failed for machinery reasons."""
    nproc = nproc or int(os.environ.get("VERIF_NPROC", "16"))
    tasks = list(tasks)
    if not tasks:
        return []
    if nproc == 1 or len(tasks) == 1:
        res = [_run_task((fn, t)) for t in tasks]
        _shutdown()
        _WORKER.clear()
    else:
        ctx = multiprocessing.get_context("fork")
        with ctx.Pool(min(nproc, len(tasks))) as pool:
            res = pool.map(_run_task, [(fn, t) for t in tasks], chunksize=chunksize)
    out = []
    for status, val in res:
        if status != "ok":
            raise MachineryError(val)
        out.append(val)
    return out
