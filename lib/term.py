"""Independent terminal model (ECMA-48 SGR subset + OSC 8), sharing no code with delta's src/ansi.

decode(data) -> list of Row. A Row has
  .runs      list of (text, Style) in order (maximal runs of equal style)
  .text      the visible text of the row
  .end_style Style in force when the newline (or EOF) was reached
  .end_link  hyperlink target open at the newline (None if none)
  .broken    list of descriptions of malformed / interrupted escape sequences seen on the row
  .erase     list of (column_text_len, bg) for CSI 0K / CSI K seen (fill to end of line with bg)
  .links     list of (target, text) for every OSC 8 link closed or still open at end of row
  .terminated True if the row ended with a newline (False only for a trailing partial row)
  .raw       the raw bytes of the row (without newline)
Style is a tuple (fg, bg, attrs) with fg/bg None | ('i', n) | ('rgb', r, g, b); attrs bitmask.
"""
import re
import unicodedata

BOLD, DIM, ITALIC, UL, BLINK, REVERSE, HIDDEN, STRIKE = 1, 2, 4, 8, 16, 32, 64, 128
ATTR_NAMES = {BOLD: "bold", DIM: "dim", ITALIC: "italic", UL: "ul", BLINK: "blink",
              REVERSE: "reverse", HIDDEN: "hidden", STRIKE: "strike"}
DEFAULT = (None, None, 0)

_SET = {1: BOLD, 2: DIM, 3: ITALIC, 4: UL, 5: BLINK, 6: BLINK, 7: REVERSE, 8: HIDDEN, 9: STRIKE}
_CLEAR = {21: BOLD, 22: BOLD | DIM, 23: ITALIC, 24: UL, 25: BLINK, 27: REVERSE, 28: HIDDEN,
          29: STRIKE}

# one token: CSI, OSC (terminated by BEL or ST), other two-byte escape, lone/invalid ESC, or C1 CSI
_TOKEN = re.compile(
    "\x1b\\[([0-?]*)([ -/]*)([@-~])"          # 1,2,3 complete CSI
    "|\x1b\\]([^\x07\x1b\n]*)(\x07|\x1b\\\\)"  # 4,5 complete OSC
    "|(\x1b\\[[0-?]*[ -/]*)(?=[^@-~]|$)"       # 6 interrupted CSI
    "|(\x1b\\][^\x07\x1b\n]*)(?=\x1b[^\\\\]|\n|$)"  # 7 unterminated OSC
    "|(\x1b[ -/]*[0-Z\\\\^-~])"                # 8 other complete escape (nF / Fp / Fe / Fs)
    "|(\x1b)"                                  # 9 lone ESC
)


class Row(object):
    __slots__ = ("runs", "end_style", "end_link", "broken", "erase", "links", "terminated",
                 "raw", "start_style", "start_link", "other_seqs")

    @property
    def text(self):
        return "".join(t for t, _ in self.runs)

    def cells(self):
        """list of (grapheme, style) - combining marks attached to their base."""
        out = []
        for t, st in self.runs:
            for ch in t:
                # (a terminal puts a combining character into the cell of its base whatever rendition is current)
                if out and unicodedata.category(ch) in ("Mn", "Me"):
                    out[-1] = (out[-1][0] + ch, st)
                else:
                    out.append((ch, st))
        return out

    def __repr__(self):
        return "Row(%r)" % (self.runs,)


def _apply_sgr(style, params):
    fg, bg, attrs = style
    if params == "":
        return DEFAULT, None
    bad = None
    try:
        nums = [int(p) if p != "" else 0 for p in params.replace(":", ";").split(";")]
    except ValueError:
        return style, "non-numeric SGR parameter %r" % params
    i = 0
    n = len(nums)
    while i < n:
        c = nums[i]
        if c == 0:
            fg, bg, attrs = None, None, 0
        elif c in _SET:
            attrs |= _SET[c]
        elif c in _CLEAR:
            attrs &= ~_CLEAR[c]
        elif 30 <= c <= 37:
            fg = ("i", c - 30)
        elif 40 <= c <= 47:
            bg = ("i", c - 40)
        elif 90 <= c <= 97:
            fg = ("i", c - 90 + 8)
        elif 100 <= c <= 107:
            bg = ("i", c - 100 + 8)
        elif c == 39:
            fg = None
        elif c == 49:
            bg = None
        elif c in (38, 48):
            if i + 2 < n + 0 and nums[i + 1] == 5 and i + 2 < n:
                col = ("i", nums[i + 2])
                i += 2
            elif i + 4 < n and nums[i + 1] == 2:
                col = ("rgb", nums[i + 2], nums[i + 3], nums[i + 4])
                i += 4
            else:
                bad = "truncated extended colour in SGR %r" % params
                break
            if c == 38:
                fg = col
            else:
                bg = col
        else:
            pass  # unknown SGR code: ignored by terminals
        i += 1
    return (fg, bg, attrs), bad


def decode(data, start_style=DEFAULT, start_link=None):
    if isinstance(data, bytes):
        text = data.decode("utf-8", "surrogateescape")
    else:
        text = data
    rows = []
    if text == "":
        return rows
    style = start_style
    link = start_link
    lines = text.split("\n")
    last_terminated = text.endswith("\n")
    if last_terminated:
        lines.pop()
    nlines = len(lines)
    for li, line in enumerate(lines):
        row = Row()
        row.start_style = style
        row.start_link = link
        row.raw = line
        row.broken = []
        row.erase = []
        row.links = []
        row.other_seqs = []
        runs = []
        link_text = [] if link is not None else None
        pos = 0
        vis_len = 0
        if "\x1b" not in line and "\x9b" not in line:
            if line:
                runs.append((line, style))
                if link_text is not None:
                    link_text.append(line)
        else:
            for m in _TOKEN.finditer(line):
                if m.start() > pos:
                    t = line[pos:m.start()]
                    if runs and runs[-1][1] == style:
                        runs[-1] = (runs[-1][0] + t, style)
                    else:
                        runs.append((t, style))
                    vis_len += len(t)
                    if link_text is not None:
                        link_text.append(t)
                pos = m.end()
                if m.group(3) is not None:
                    final = m.group(3)
                    params, inter = m.group(1), m.group(2)
                    if final == "m" and inter == "":
                        style, bad = _apply_sgr(style, params)
                        if bad:
                            row.broken.append(bad)
                    elif final == "K" and inter == "":
                        if params in ("", "0"):
                            row.erase.append((vis_len, style[1]))
                        else:
                            row.other_seqs.append(m.group(0))
                    else:
                        row.other_seqs.append(m.group(0))
                elif m.group(4) is not None:
                    body = m.group(4)
                    if body.startswith("8;"):
                        rest = body[2:]
                        k = rest.find(";")
                        if k < 0:
                            row.broken.append("malformed OSC 8 %r" % body)
                        else:
                            target = rest[k + 1:]
                            if target == "":
                                if link is None:
                                    row.broken.append("OSC 8 close without open")
                                else:
                                    row.links.append((link, "".join(link_text or [])))
                                link = None
                                link_text = None
                            else:
                                if link is not None:
                                    row.links.append((link, "".join(link_text or [])))
                                    row.broken.append("OSC 8 open while a link is open")
                                link = target
                                link_text = []
                    else:
                        row.other_seqs.append(m.group(0))
                elif m.group(6) is not None:
                    row.broken.append("interrupted CSI %r" % m.group(6))
                elif m.group(7) is not None:
                    row.broken.append("unterminated OSC %r" % m.group(7)[:20])
                elif m.group(8) is not None:
                    row.other_seqs.append(m.group(0))
                else:
                    row.broken.append("lone ESC")
            if pos < len(line):
                t = line[pos:]
                if runs and runs[-1][1] == style:
                    runs[-1] = (runs[-1][0] + t, style)
                else:
                    runs.append((t, style))
                if link_text is not None:
                    link_text.append(t)
        if link is not None:
            row.links.append((link, "".join(link_text or [])))
        row.runs = runs
        row.end_style = style
        row.end_link = link
        row.terminated = last_terminated or li < nlines - 1
        rows.append(row)
    return rows


_STRIP = re.compile("\x1b\\[[0-?]*[ -/]*[@-~]|\x1b\\][^\x07\x1b\n]*(?:\x07|\x1b\\\\)")


def strip(data):
    """visible text of a byte string (escape sequences removed)"""
    if isinstance(data, bytes):
        data = data.decode("utf-8", "surrogateescape")
    return _STRIP.sub("", data)


_OSC8 = re.compile(b"\x1b\\]8;[^\x07\x1b\n]*(?:\x07|\x1b\\\\)")


def strip_osc8(data):
    return _OSC8.sub(b"", data)


# ---------------------------------------------------------------------------------------------
# width model (independent of the unicode-width crate): East Asian Wide/Fullwidth = 2,
# nonspacing / enclosing marks and format characters = 0, everything else 1.

def char_width(ch):
    if ch == "\t":
        return 1
    cat = unicodedata.category(ch)
    if cat in ("Mn", "Me", "Cf"):
        return 0
    if cat == "Cc":
        return 0
    if unicodedata.east_asian_width(ch) in ("W", "F"):
        return 2
    return 1


def text_width(s):
    return sum(char_width(c) for c in s)


def style_str(st):
    fg, bg, attrs = st
    names = [n for b, n in sorted(ATTR_NAMES.items()) if attrs & b]
    return "fg=%s bg=%s %s" % (fg, bg, "+".join(names))
