"""Verdicts, replay artefacts, known findings and evidence files."""
import hashlib
import json
import os
import sys
import time

from build import VERIF

EVIDENCE_DIR = os.path.join(VERIF, "evidence")
REPLAY_DIR = os.path.join(VERIF, "replays")
KNOWN_FILE = os.path.join(VERIF, "known_findings.json")


def load_known():
    try:
        with open(KNOWN_FILE) as f:
            return json.load(f)
    except FileNotFoundError:
        return {"findings": [], "fixed": []}


def match_known(prop, v, known):
    """A finding entry matches a violation if property and class are equal and every key of
    entry['match'] is a substring of the corresponding field of the violation (history joined
    by newlines, args joined by spaces, message)."""
    for k in known.get("findings", []):
        if k.get("property") != prop:
            continue
        m = k.get("match", {})
        if "class" in m and m["class"] != v.klass:
            continue
        if "class_prefix" in m and not v.klass.startswith(m["class_prefix"]):
            continue
        hist = "\n".join(l.decode("latin-1") if isinstance(l, bytes) else str(l)
                         for l in (v.history or []))
        if "history_contains" in m and not all(x in hist for x in m["history_contains"]):
            continue
        if "history_not_contains" in m and any(x in hist for x in m["history_not_contains"]):
            continue
        if "history_contains_any" in m and not any(x in hist for x in m["history_contains_any"]):
            continue
        if "args_contain" in m and not all(x in " ".join(v.args or []) for x in m["args_contain"]):
            continue
        if "message_contains" in m and m["message_contains"] not in (v.message or ""):
            continue
        return k
    return None


def write_replay(prop, v):
    d = os.path.join(REPLAY_DIR, prop)
    os.makedirs(d, exist_ok=True)
    j = v.to_json()
    j["property"] = prop
    blob = json.dumps(j, sort_keys=True, indent=1)
    name = hashlib.sha1(blob.encode()).hexdigest()[:12] + ".json"
    path = os.path.join(d, name)
    with open(path, "w") as f:
        f.write(blob)
    return path


def finish(prop, tier, level, coverage, violations, assumptions, t0, seed=0):
    """Writes the evidence file, prints KNOWN-FINDING / VIOLATION lines, returns the exit code."""
    known = load_known()
    new = []
    known_hit = {}
    for v in violations:
        k = match_known(prop, v, known)
        if k is not None:
            known_hit.setdefault(k["id"], (k, v))
        else:
            new.append(v)
    for kid, (k, v) in sorted(known_hit.items()):
        print("KNOWN-FINDING: property=%s %s [%s]" % (prop, k["what"], kid))
    for i, v in enumerate(new):
        path = write_replay(prop, v)
        if i == 12:
            print("... and %d more distinct violation classes (replay files written)"
                  % (len(new) - 12))
        if i >= 12:
            continue
        print("VIOLATION property=%s replay=%s" % (prop, path))
        print("  class=%s config=%s" % (v.klass, v.config_label))
        print("  %s" % (v.message,))
    os.makedirs(EVIDENCE_DIR, exist_ok=True)
    ev = {
        "property_id": prop, "tier": tier, "seed": seed, "level": level,
        "coverage": coverage, "assumptions": assumptions,
        "wall_s": round(time.time() - t0, 2), "violations": len(new),
        "known_findings_seen": sorted(known_hit.keys()),
    }
    with open(os.path.join(EVIDENCE_DIR, prop + ".json"), "w") as f:
        json.dump(ev, f, indent=1, sort_keys=True, default=str)
    sys.stdout.flush()
    return 1 if new else 0
