"""Reserved styles (so that an observer can classify output cells without parsing text) and the
configuration lattice: deviations from a default option vector."""
import itertools

# element class -> palette number (all in 101..160, unused by delta's defaults and by git)
R = dict(
    minus=101, minus_non_emph=102, minus_emph=103,
    plus=104, plus_non_emph=105, plus_emph=106,
    zero=107, ws_error=108,
    file=109, hunk=110, commit=111,
    ln_minus=112, ln_zero=113, ln_plus=114, ln_left=115, ln_right=116,
    file_deco=117, hunk_deco=118, commit_deco=119,
    hunk_file=120, hunk_ln=121,
    grep_file=122, grep_ln=123, grep_match_line=124, grep_match_word=125, grep_context=126,
    blame0=127, blame1=128, blame2=129, blame3=130,
    inline_hint=131, minus_empty=132, plus_empty=133, blame_sep=134,
    mc_ours=135, mc_theirs=136, mc_ours_deco=137, mc_theirs_deco=138,
    grep_header_file=139, grep_header_deco=140,
)
RN = {v: k for k, v in R.items()}

STYLE_OPTS = {
    "minus-style": "normal %d" % R["minus"],
    "minus-non-emph-style": "normal %d" % R["minus_non_emph"],
    "minus-emph-style": "normal %d" % R["minus_emph"],
    "plus-style": "normal %d" % R["plus"],
    "plus-non-emph-style": "normal %d" % R["plus_non_emph"],
    "plus-emph-style": "normal %d" % R["plus_emph"],
    "zero-style": "normal %d" % R["zero"],
    "whitespace-error-style": "normal %d" % R["ws_error"],
    "file-style": "%d" % R["file"],
    "hunk-header-style": "line-number %d" % R["hunk"],
    "commit-style": "%d" % R["commit"],
    "line-numbers-minus-style": "%d" % R["ln_minus"],
    "line-numbers-zero-style": "%d" % R["ln_zero"],
    "line-numbers-plus-style": "%d" % R["ln_plus"],
    "line-numbers-left-style": "%d" % R["ln_left"],
    "line-numbers-right-style": "%d" % R["ln_right"],
    "file-decoration-style": "%d ul" % R["file_deco"],
    "hunk-header-decoration-style": "%d box" % R["hunk_deco"],
    "commit-decoration-style": "%d" % R["commit_deco"],
    "hunk-header-file-style": "%d" % R["hunk_file"],
    "hunk-header-line-number-style": "%d" % R["hunk_ln"],
    "grep-file-style": "%d" % R["grep_file"],
    "grep-line-number-style": "%d" % R["grep_ln"],
    "grep-match-line-style": "normal %d" % R["grep_match_line"],
    "grep-match-word-style": "normal %d" % R["grep_match_word"],
    "grep-context-line-style": "normal %d" % R["grep_context"],
    "blame-palette": "%d %d %d" % (R["blame0"], R["blame1"], R["blame2"]),
    "inline-hint-style": "%d" % R["inline_hint"],
    "minus-empty-line-marker-style": "normal %d" % R["minus_empty"],
    "plus-empty-line-marker-style": "normal %d" % R["plus_empty"],
    "blame-separator-style": "%d" % R["blame_sep"],
    "merge-conflict-ours-diff-header-style": "%d" % R["mc_ours"],
    "merge-conflict-theirs-diff-header-style": "%d" % R["mc_theirs"],
    "merge-conflict-ours-diff-header-decoration-style": "%d box" % R["mc_ours_deco"],
    "merge-conflict-theirs-diff-header-decoration-style": "%d box" % R["mc_theirs_deco"],
    "grep-header-file-style": "%d" % R["grep_header_file"],
    "grep-header-decoration-style": "%d box" % R["grep_header_deco"],
}

BASE_OPTS = {
    "no-gitconfig": True,
    "paging": "never",
    "detect-dark-light": "never",
    "dark": True,
    "syntax-theme": "none",
    "true-color": "never",
    "width": "40",
    "blame-timestamp-output-format": "%Y-%m-%d %H:%M:%S %z",
}


def build_args(opts):
    """opts: dict option-name -> value (True for flags, None/False to leave out)."""
    args = []
    for k in sorted(opts):
        v = opts[k]
        if v is None or v is False:
            continue
        if v is True:
            args.append("--" + k)
        else:
            args.append("--%s=%s" % (k, v))
    return args


def base_opts(extra=None, reserved=True):
    o = dict(BASE_OPTS)
    if reserved:
        o.update(STYLE_OPTS)
    if extra:
        o.update(extra)
    return o


class Dim(object):
    """One dimension of the lattice: name, list of (level name, dict of option overrides). The
    first level is the default (no deviation)."""

    def __init__(self, name, levels):
        self.name = name
        self.levels = levels


def deviations(dims, d):
    """All configurations with at most d dimensions off their default. Yields
    (label, merged overrides, number of deviations)."""
    out = []
    for k in range(0, d + 1):
        for combo in itertools.combinations(range(len(dims)), k):
            choices = [range(1, len(dims[i].levels)) for i in combo]
            for lv in itertools.product(*choices):
                label = []
                ov = {}
                for i, l in zip(combo, lv):
                    name, o = dims[i].levels[l]
                    label.append("%s=%s" % (dims[i].name, name))
                    ov.update(o)
                out.append((",".join(label) or "default", ov, k))
    return out


def classify_style(st):
    """name of the reserved element class carried by a decoded Style, or None"""
    fg, bg, _ = st
    if bg is not None and bg[0] == "i" and bg[1] in RN:
        return RN[bg[1]]
    if fg is not None and fg[0] == "i" and fg[1] in RN:
        return RN[fg[1]]
    return None
