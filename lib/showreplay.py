import json,sys,glob
for f in sys.argv[1:]:
    j=json.load(open(f))
    print("==",f, j['class'], j['config'])
    print('\n'.join(j['input_lines_latin1'] or []))
    print('exp',j['expected'],'obs',j['observed'])
    print('args', ' '.join(a for a in (j['args'] or []) if 'style' not in a))
