"""Python side of the in-process driver (hook H1) and of plain CLI runs of the real binary."""
import fcntl
import json
import os
import select
import socket
import struct
import subprocess
import termios
import time

from build import BIN, BUILD, VERIF, MachineryError

EMPTY_HOME = os.path.join(BUILD, "empty_home")


def base_env():
    os.makedirs(EMPTY_HOME, exist_ok=True)
    return {
        "PATH": "/usr/local/bin:/usr/bin:/bin",
        "HOME": EMPTY_HOME,
        "XDG_CONFIG_HOME": EMPTY_HOME,
        "GIT_CONFIG_NOSYSTEM": "1",
        "GIT_CONFIG_GLOBAL": "/dev/null",
        "LC_ALL": "C.UTF-8",
        "TERM": "xterm-256color",
    }


class Rejected(Exception):
    """delta refused the option set (fatal()/exit 2 in option processing). Not a verdict."""


class DriverDied(Exception):
    def __init__(self, msg, status=None, stderr=b""):
        Exception.__init__(self, msg)
        self.status = status
        self.stderr = stderr


class Hang(Exception):
    pass


class Result(object):
    __slots__ = ("out", "panic", "ioerr", "trace")

    def __init__(self, d):
        self.out = d["out"].encode("latin-1")
        self.panic = d.get("panic")
        self.ioerr = d.get("ioerr")
        self.trace = d.get("trace")


def set_winsize(fd, rows, cols):
    fcntl.ioctl(fd, termios.TIOCSWINSZ, struct.pack("HHHH", rows, cols, 0, 0))


class Driver(object):
    """One delta process in driver mode. caller: list of argv words of the parent command (or
    None). pty: None for stdout=pipe(/dev/null), or (rows, cols) for a pty of that size."""

    def __init__(self, caller=None, pty=None, extra_env=None, timeout=20.0, cwd=None):
        self.caller = caller
        self.pty = pty
        self.extra_env = extra_env or {}
        self.timeout = timeout
        self.cwd = cwd
        self.configs = {}      # id -> (args, env)
        self.live = set()      # ids existing in the current process
        self.proc = None
        self.nid = 0
        self.restarts = 0
        self.master = None
        self.slave = None
        self._start()

    # -- process management ---------------------------------------------------------------
    def _start(self):
        r_req, w_req = os.pipe()
        r_resp, w_resp = os.pipe()
        env = base_env()
        env.update(self.extra_env)
        env["DELTA_VERIF_DRIVER"] = "%d,%d" % (r_req, w_resp)
        if self.pty is not None:
            if self.master is None:
                self.master, self.slave = os.openpty()
            set_winsize(self.slave, self.pty[0], self.pty[1])
            stdout = self.slave
        else:
            stdout = subprocess.DEVNULL
        self.proc = subprocess.Popen(
            [BIN], env=env, stdin=subprocess.DEVNULL, stdout=stdout,
            stderr=subprocess.PIPE, pass_fds=(r_req, w_resp), cwd=self.cwd)
        os.close(r_req)
        os.close(w_resp)
        self.w = os.fdopen(w_req, "wb", buffering=0)
        self.rfd = r_resp
        self.rbuf = b""
        self.live = set()
        self._call({"op": "hello", "caller": self.caller})

    def resize(self, rows, cols):
        self.pty = (rows, cols)
        set_winsize(self.slave, rows, cols)

    def close(self):
        if self.proc is not None:
            try:
                self.w.close()
            except Exception:
                pass
            try:
                os.close(self.rfd)
            except Exception:
                pass
            try:
                self.proc.kill()
            except Exception:
                pass
            self.proc.wait()
            try:
                self.proc.stderr.close()
            except Exception:
                pass
            self.proc = None

    def shutdown(self):
        self.close()
        for fd in (self.master, self.slave):
            if fd is not None:
                try:
                    os.close(fd)
                except Exception:
                    pass
        self.master = self.slave = None

    def restart(self):
        self.close()
        self.restarts += 1
        self._start()

    def _readline(self, deadline):
        while True:
            i = self.rbuf.find(b"\n")
            if i >= 0:
                line = self.rbuf[:i]
                self.rbuf = self.rbuf[i + 1:]
                return line
            left = deadline - time.time()
            if left <= 0:
                raise Hang("driver did not answer within %.1fs" % self.timeout)
            r, _, _ = select.select([self.rfd], [], [], left)
            if not r:
                continue
            chunk = os.read(self.rfd, 1 << 20)
            if not chunk:
                status = self.proc.wait()
                err = self.proc.stderr.read()
                raise DriverDied("driver exited with status %s" % status, status, err)
            self.rbuf += chunk

    def _call(self, req, timeout=None):
        data = (json.dumps(req) + "\n").encode("ascii")
        try:
            self.w.write(data)
        except (BrokenPipeError, OSError):
            status = self.proc.wait()
            err = self.proc.stderr.read()
            raise DriverDied("driver exited with status %s" % status, status, err)
        line = self._readline(time.time() + (timeout or self.timeout))
        return json.loads(line.decode("utf-8"))

    # -- requests -------------------------------------------------------------------------
    def mkconfig(self, args, env=None):
        """Returns a config id. Raises Rejected if delta refuses the option set."""
        cid = "c%d" % self.nid
        self.nid += 1
        # mirror DeltaEnv::init of a plain CLI run in the same directory / on the same host
        e = {"cwd": self.cwd or os.getcwd(), "hostname": socket.gethostname(), "pager": "less"}
        e.update(env or {})
        e = {k: v for k, v in e.items() if v is not None}
        self.configs[cid] = (list(args), e)
        self._ensure(cid)
        return cid

    def _ensure(self, cid):
        if cid in self.live:
            return
        args, env = self.configs[cid]
        try:
            resp = self._call({"op": "mkconfig", "id": cid, "args": args, "env": env})
        except DriverDied as e:
            self.restart()
            if e.status == 2:
                del self.configs[cid]
                raise Rejected(e.stderr.decode("utf-8", "replace").strip())
            raise
        if not resp.get("ok"):
            del self.configs[cid]
            if "panic" in resp:
                self.restart()
                raise Rejected("PANIC in option processing: " + str(resp["panic"]))
            raise Rejected(str(resp.get("error")))
        self.live.add(cid)
        self.last_features = resp.get("features")

    def drop(self, cid):
        self.configs.pop(cid, None)
        if cid in self.live:
            self.live.discard(cid)
            self._call({"op": "drop", "id": cid})

    def render(self, cid, inputs, trace=False, timeout=None, trace_from=0):
        """inputs: list of bytes. Returns list of Result. A hang raises Hang (driver
        restarted); a death of the driver (abort, exit in fatal()) raises DriverDied."""
        self._ensure(cid)
        req = {"op": "render", "id": cid, "trace": trace, "trace_from": trace_from,
               "inputs": [b.decode("latin-1") for b in inputs]}
        try:
            resp = self._call(req, timeout)
        except (Hang, DriverDied):
            self.restart()
            raise
        if "error" in resp:
            raise MachineryError("driver: " + resp["error"])
        res = [Result(d) for d in resp["results"]]
        if any(r.panic for r in res):
            # a panic may have poisoned global mutexes: fresh process for later requests
            self.restart()
        return res

    def render1(self, cid, data, trace=False):
        return self.render(cid, [data], trace)[0]

    def showconfig(self, cid):
        self._ensure(cid)
        resp = self._call({"op": "showconfig", "id": cid})
        if "out" not in resp:
            raise MachineryError("showconfig failed: %r" % (resp,))
        return resp["out"].encode("latin-1").decode("utf-8", "replace"), resp.get("features")

    def width(self, s):
        return self._call({"op": "width", "s": s})["width"]


def run_cli(args, data, env=None, pty=None, caller=None, timeout=20.0, cwd=None):
    """Run the real binary the way a user would: delta <args> < data. Returns
    (status, stdout bytes, stderr bytes). With pty=(rows, cols) stdout is a pty."""
    e = base_env()
    if env:
        e.update(env)
    if caller:
        e["DELTA_VERIF_PARENT_ARGS"] = " ".join(caller)
    else:
        e["DELTA_VERIF_PARENT_ARGS"] = "verif-none"
    if pty is None:
        p = subprocess.run([BIN] + list(args), input=data, env=e, cwd=cwd,
                           stdout=subprocess.PIPE, stderr=subprocess.PIPE, timeout=timeout)
        return p.returncode, p.stdout, p.stderr
    master, slave = os.openpty()
    try:
        set_winsize(slave, pty[0], pty[1])
        # raw mode: no NL -> CRNL translation
        attrs = termios.tcgetattr(slave)
        attrs[1] = attrs[1] & ~termios.OPOST
        termios.tcsetattr(slave, termios.TCSANOW, attrs)
        p = subprocess.Popen([BIN] + list(args), env=e, cwd=cwd, stdin=subprocess.PIPE,
                             stdout=slave, stderr=subprocess.PIPE)
        os.close(slave)
        slave = None
        out = []
        p.stdin.write(data)
        p.stdin.close()
        deadline = time.time() + timeout
        while True:
            left = deadline - time.time()
            if left <= 0:
                p.kill()
                raise Hang("cli run timed out")
            r, _, _ = select.select([master], [], [], min(left, 0.05))
            if r:
                try:
                    chunk = os.read(master, 1 << 16)
                except OSError:
                    chunk = b""
                if chunk:
                    out.append(chunk)
                    continue
            if p.poll() is not None:
                # drain
                while True:
                    r, _, _ = select.select([master], [], [], 0)
                    if not r:
                        break
                    try:
                        chunk = os.read(master, 1 << 16)
                    except OSError:
                        break
                    if not chunk:
                        break
                    out.append(chunk)
                break
        err = p.stderr.read()
        p.stderr.close()
        return p.returncode, b"".join(out), err
    finally:
        os.close(master)
        if slave is not None:
            os.close(slave)
