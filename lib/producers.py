"""Producers: what plays git / diff. Small grammar automata written from the git and diffutils
documentation of the formats (unified diff, extended headers, combined diff, log framing)."""

H40A = b"1111111111111111111111111111111111111111"
H40B = b"2222222222222222222222222222222222222222"

# hunk bodies by ending kind; each entry is a list of hunk lines
BODIES = {
    "ctx": [b" a", b"-b", b"+c", b" d"],
    "minus": [b" a", b"-b"],
    "plus": [b" a", b"+c"],
    "minusplus": [b" a", b"-b", b"+c"],
    "nonl": [b" a", b"-b", b"\\ No newline at end of file", b"+c", b"\\ No newline at end of file"],
}
# not in BODY_KINDS (used by C02 only): lines longer than delta's default --max-line-length (3000 bytes)
BODIES["long"] = [b" a", b"-" + b"y" * 3100, b"+" + b"z" * 3100, b" " + b"w" * 3100]
# not in BODY_KINDS (plain diff sources only): an entirely empty context line, as `diff -u --suppress-blank-empty`
# and whitespace-stripping mail tools produce
BODIES["emptyctx"] = [b" a", b"", b"-b", b"+c"]
BODY_KINDS = ["ctx", "minus", "plus", "minusplus", "nonl"]


def section(kind, n, body="ctx", src="git"):
    """Lines of one file section of the given kind; n makes file names unique. Returns
    (lines, info) where info describes the section for reference models:
      info = dict(kind, old, new, event, has_hunk, hunk_lines=[...], header_addenda)"""
    f = b"f%d.txt" % n
    g = b"g%d.txt" % n
    bl = list(BODIES[body])
    hh = b"@@ -1,%d +1,%d @@" % (sum(1 for l in bl if l[:1] in b" -"),
                                 sum(1 for l in bl if l[:1] in b" +"))
    info = dict(kind=kind, old=f, new=f, event="modified", has_hunk=True, hunk_lines=bl,
                mode=None, binary=False, body=body)
    if src in ("diffu", "diffu_bare") and kind == "binary":
        # GNU diff -r writes a single line for a binary file, without a `diff` command line
        lines = [b"Binary files a/" + f + b" and b/" + f + b" differ"]
        info.update(event="binary", binary=True, has_hunk=False, hunk_lines=[], old=b"a/" + f, new=b"b/" + f)
        return lines, info
    if src in ("diffu", "diffu_bare"):
        # plain `diff -ru` output: no git extended headers; "diffu_bare": outputs of several `diff -u a b`
        # runs one after the other, i.e. no `diff` line between files
        lines = [b"diff -ru a/" + f + b" b/" + f,
                 b"--- a/" + f + b"\t2020-01-01 00:00:00.000000000 +0000",
                 b"+++ b/" + f + b"\t2020-01-02 00:00:00.000000000 +0000", hh] + bl
        if src == "diffu_bare":
            lines = lines[1:]
        info["old"] = b"a/" + f
        info["new"] = b"b/" + f
        return lines, info
    d = b"diff --git a/" + f + b" b/" + f
    if kind == "modified":
        lines = [d, b"index 1111111..2222222 100644", b"--- a/" + f, b"+++ b/" + f, hh] + bl
    elif kind == "added":
        bl = [l for l in bl if l[:1] == b"+" ] or [b"+c"]
        bl = [b"+c", b"+e"] if body in ("ctx", "minusplus") else ([b"+c"] if body != "nonl" else
                                                                 [b"+c", b"\\ No newline at end of file"])
        lines = [d, b"new file mode 100644", b"index 0000000..2222222", b"--- /dev/null",
                 b"+++ b/" + f, b"@@ -0,0 +1,%d @@" % len([l for l in bl if l[:1] == b"+"])] + bl
        info.update(event="added", old=b"/dev/null", hunk_lines=bl)
    elif kind == "deleted":
        bl = [b"-b", b"-e"] if body in ("ctx", "minusplus") else ([b"-b"] if body != "nonl" else
                                                                 [b"-b", b"\\ No newline at end of file"])
        lines = [d, b"deleted file mode 100644", b"index 1111111..0000000", b"--- a/" + f,
                 b"+++ /dev/null", b"@@ -1,%d +0,0 @@" % len([l for l in bl if l[:1] == b"-"])] + bl
        info.update(event="deleted", new=b"/dev/null", hunk_lines=bl)
    elif kind == "rename":
        lines = [b"diff --git a/" + f + b" b/" + g, b"similarity index 100%",
                 b"rename from " + f, b"rename to " + g]
        info.update(event="renamed", new=g, has_hunk=False, hunk_lines=[])
    elif kind == "rename_change":
        lines = [b"diff --git a/" + f + b" b/" + g, b"similarity index 90%",
                 b"rename from " + f, b"rename to " + g, b"index 1111111..2222222 100644",
                 b"--- a/" + f, b"+++ b/" + g, hh] + bl
        info.update(event="renamed", new=g)
    elif kind == "copy":
        lines = [b"diff --git a/" + f + b" b/" + g, b"similarity index 100%",
                 b"copy from " + f, b"copy to " + g]
        info.update(event="copied", new=g, has_hunk=False, hunk_lines=[])
    elif kind == "mode":
        lines = [d, b"old mode 100644", b"new mode 100755"]
        info.update(event="mode", mode=(b"100644", b"100755"), has_hunk=False, hunk_lines=[])
    elif kind == "mode_change":
        lines = [d, b"old mode 100644", b"new mode 100755", b"index 1111111..2222222",
                 b"--- a/" + f, b"+++ b/" + f, hh] + bl
        info.update(mode=(b"100644", b"100755"))
    elif kind == "binary":
        lines = [d, b"index 1111111..2222222 100644",
                 b"Binary files a/" + f + b" and b/" + f + b" differ"]
        info.update(event="binary", binary=True, has_hunk=False, hunk_lines=[])
    elif kind == "submodule":
        bl = [b"-Subproject commit " + H40A, b"+Subproject commit " + H40B]
        lines = [d, b"index 1111111..2222222 160000", b"--- a/" + f, b"+++ b/" + f,
                 b"@@ -1 +1 @@"] + bl
        info.update(hunk_lines=bl, event="submodule")
    elif kind in ("submodule_deleted", "submodule_added", "submodule_dirty"):
        # `git rm sub` / `git submodule add` / a submodule with uncommitted changes, in git's default short format
        if kind == "submodule_deleted":
            bl = [b"-Subproject commit " + H40A]
            lines = [d, b"deleted file mode 160000", b"index 1111111..0000000", b"--- a/" + f, b"+++ /dev/null",
                     b"@@ -1 +0,0 @@"] + bl
            info.update(event="deleted", new=b"/dev/null")
        elif kind == "submodule_added":
            bl = [b"+Subproject commit " + H40B]
            lines = [d, b"new file mode 160000", b"index 0000000..2222222", b"--- /dev/null", b"+++ b/" + f,
                     b"@@ -0,0 +1 @@"] + bl
            info.update(event="added", old=b"/dev/null")
        else:
            bl = [b"-Subproject commit " + H40A, b"+Subproject commit " + H40A + b"-dirty"]
            lines = [d, b"index 1111111..1111111 160000", b"--- a/" + f, b"+++ b/" + f, b"@@ -1 +1 @@"] + bl
        info.update(hunk_lines=bl, submodule=True)
    elif kind == "submodule_log":
        # diff.submodule=log / --submodule=log: no `diff --git` line at all
        lines = [b"Submodule " + f + b" 1111111..2222222:", b"  > commit subject one", b"  > second"]
        info.update(event="submodule", has_hunk=False, hunk_lines=[])
    elif kind == "bigline":
        # a hunk far down a big file: line numbers need more digits than the next section's
        hh2 = b"@@ -123456,%d +123456,%d @@ fn deep()" % (sum(1 for l in bl if l[:1] in b" -"),
                                                         sum(1 for l in bl if l[:1] in b" +"))
        lines = [d, b"index 1111111..2222222 100644", b"--- a/" + f, b"+++ b/" + f, hh2] + bl
    elif kind in ("conflict2_unnamed", "conflict2_open"):
        # the same with markers that name nothing (`++>>>>>>>`), and a region that is never closed (the section
        # ends inside it): what an earlier region named must not be shown for these
        bl = [b"  a", b"++<<<<<<< HEAD", b" +ours", b"++=======", b"+ theirs"]
        if kind == "conflict2_unnamed":
            bl += [b"++>>>>>>>", b"  z"]
        lines = [b"diff --cc " + f, b"index 1111111,2222222..0000000", b"--- a/" + f, b"+++ b/" + f,
                 b"@@@ -1,3 -1,3 +1,7 @@@"] + bl
        info.update(event="combined", hunk_lines=bl)
    elif kind in ("conflict3", "conflict2"):
        # combined diff of an unresolved merge: a conflict region in diff3 style (with the common ancestor) or
        # in the default two-way style
        bl = [b"  a", b"++<<<<<<< HEAD", b" +ours"]
        if kind == "conflict3":
            bl += [b"++||||||| base", b"++anc"]
        bl += [b"++=======", b"+ theirs", b"++>>>>>>> branch", b"  z"]
        lines = [b"diff --cc " + f, b"index 1111111,2222222..0000000", b"--- a/" + f, b"+++ b/" + f,
                 b"@@@ -1,3 -1,3 +1,9 @@@"] + bl
        info.update(event="combined", hunk_lines=bl)
    elif kind == "binary_patch":
        # `git diff --binary`: two base85 parts, each ended by an empty line
        lines = [d, b"index 1111111..2222222 100644", b"GIT binary patch", b"literal 5", b"McmZQzU|?WiU|;|M00aO5", b"",
                 b"literal 0", b"HcmV?d00001", b""]
        info.update(event="binary", binary=True, has_hunk=False, hunk_lines=[])
    elif kind == "binary_noindex":
        # `git diff --no-index x y` of two binary files: the diff line names two different paths and
        # there are no ---/+++ lines
        lines = [b"diff --git a/" + f + b" b/" + g, b"index 1111111..2222222 100644",
                 b"Binary files a/" + f + b" and b/" + g + b" differ"]
        info.update(event="binary", binary=True, has_hunk=False, hunk_lines=[], new=g)
    elif kind == "binary_noindex_dirs":
        # the same for two directory trees (`git diff --no-index old new`): the paths carry the directory names
        # instead of git's prefixes
        lines = [b"diff --git old/" + f + b" new/" + g, b"index 1111111..2222222 100644",
                 b"Binary files old/" + f + b" and new/" + g + b" differ"]
        info.update(event="binary", binary=True, has_hunk=False, hunk_lines=[], old=b"old/" + f, new=b"new/" + g)
    elif kind == "commit":
        # not a file section: the next commit of `git log -p` / concatenated `git show` outputs, directly
        # after the previous file (no blank line in between)
        lines = list(COMMIT_BLOCK)
        info.update(event="commit", has_hunk=False, hunk_lines=[])
    elif kind == "empty":
        lines = [d, b"new file mode 100644", b"index 0000000..e69de29"]
        info.update(event="added", old=b"/dev/null", has_hunk=False, hunk_lines=[])
    elif kind == "combined":
        bl = {"ctx": [b"  a", b"- b", b" -b2", b"++c", b"  d"],
              "minus": [b"  a", b"- b"],
              "plus": [b"  a", b"++c"],
              "minusplus": [b"  a", b" -b", b"+ c"],
              "nonl": [b"  a", b"- b", b"++c", b"\\ No newline at end of file"]}[body]
        lines = [b"diff --cc " + f, b"index 1111111,2222222..3333333", b"--- a/" + f,
                 b"+++ b/" + f, b"@@@ -1,2 -1,2 +1,2 @@@"] + bl
        info.update(event="combined", hunk_lines=bl)
    else:
        raise ValueError(kind)
    return lines, info


SECTION_KINDS = ["modified", "added", "deleted", "rename", "rename_change", "copy", "mode",
                 "mode_change", "binary", "submodule", "empty", "combined", "submodule_log", "bigline"]

COMMIT_BLOCK = [b"commit " + H40A, b"Author: A U Thor <a@example.com>",
                b"Date:   Thu Jan 1 00:00:00 2020 +0000", b"", b"    subject line", b""]


def hunk_line_kind(line, n_parents=1):
    """'minus' | 'plus' | 'zero' | 'raw' for a hunk line of a unified (n_parents=1) or combined
    diff, following the format definitions: any '-' in the prefix columns = removed, else any '+'
    = added, all blanks = unchanged."""
    prefix = line[:n_parents]
    if line[:1] == b"\\":
        return "raw"
    if n_parents == 1:
        return {b"-": "minus", b"+": "plus", b" ": "zero"}.get(prefix, "raw")
    if b"-" in prefix:
        return "minus"
    if b"+" in prefix:
        return "plus"
    if prefix.strip(b" ") == b"":
        return "zero"
    return "raw"
