"""debug helper: python3 lib/play.py [--opt k=v ...] < input ; prints decoded rows"""
import sys
sys.path.insert(0, __file__.rsplit("/", 1)[0])
from driver import Driver
from lattice import base_opts, build_args, classify_style
import term

def show(out):
    for row in term.decode(out):
        parts = []
        for t, st in row.runs:
            parts.append("%s{%s}" % (t, classify_style(st) or term.style_str(st)))
        extra = ""
        if row.erase: extra += " ERASE%r" % (row.erase,)
        if row.broken: extra += " BROKEN%r" % (row.broken,)
        if row.links: extra += " LINKS%r" % (row.links,)
        if row.end_style != term.DEFAULT: extra += " ENDSTYLE"
        print("|" + "".join(parts) + "|" + extra)

if __name__ == "__main__":
    ov = {}
    caller = None
    pty = None
    for a in sys.argv[1:]:
        k, _, v = a.partition("=")
        if k == "caller": caller = v.split(" "); continue
        if k == "pty": pty = tuple(int(x) for x in v.split("x")); continue
        ov[k] = True if v == "" else (None if v == "NONE" else v)
    d = Driver(caller=caller, pty=pty)
    cid = d.mkconfig(build_args(base_opts(ov)))
    data = sys.stdin.buffer.read()
    r = d.render1(cid, data, trace=True)
    if r.panic: print("PANIC", r.panic)
    show(r.out)
    print([o for o, _ in r.trace])
