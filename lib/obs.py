"""Row observers built on the terminal model and the reserved styles."""
import term
from lattice import classify_style, R, RN

MINUS = {"minus", "minus_non_emph", "minus_emph", "minus_empty"}
PLUS = {"plus", "plus_non_emph", "plus_emph", "plus_empty"}
LN = {"ln_minus", "ln_zero", "ln_plus", "ln_left", "ln_right"}
HEADER_KINDS = ("file", "hunk", "commit")


class RowInfo(object):
    __slots__ = ("kind", "text", "gutter", "classes", "row", "exact", "gutter_runs", "body_runs")


def bg_class(bg):
    if bg is not None and bg[0] == "i":
        return RN.get(bg[1])
    return None


def observe_row(row):
    """Classify one decoded row of unified-view output.

    kind: 'minus' | 'plus' | 'zero' | 'file' | 'hunk' | 'commit' | 'deco' | 'blank' | 'other'
    text: visible text of the row without the line-number gutter
    exact: True when the row is terminated by an erase-to-end-of-line (no space padding), so the
           text can be compared exactly; otherwise trailing blanks are padding.
    """
    info = RowInfo()
    info.row = row
    runs = [(t, classify_style(st)) for t, st in row.runs if t != ""]
    i = 0
    while i < len(runs) and runs[i][1] in LN:
        i += 1
    info.gutter_runs = runs[:i]
    info.body_runs = runs[i:]
    info.gutter = "".join(t for t, _ in runs[:i])
    info.text = "".join(t for t, _ in runs[i:])
    classes = set(c for _, c in runs[i:])
    for _, bg in row.erase:
        c = bg_class(bg)
        if c:
            classes.add(c)
    info.classes = classes
    info.exact = bool(row.erase)
    if classes & MINUS and not classes & PLUS:
        info.kind = "minus"
    elif classes & PLUS and not classes & MINUS:
        info.kind = "plus"
    elif classes & MINUS and classes & PLUS:
        info.kind = "mixed"
    elif "zero" in classes:
        info.kind = "zero"
    elif "file" in classes:
        info.kind = "file"
    elif classes & {"hunk", "hunk_file", "hunk_ln"}:
        info.kind = "hunk"
    elif "commit" in classes:
        info.kind = "commit"
    elif classes & {"mc_ours", "mc_theirs"}:
        info.kind = "mcheader"
    elif classes and classes <= {"file_deco", "hunk_deco", "commit_deco", "mc_ours_deco",
                                 "mc_theirs_deco", None} and \
            classes & {"file_deco", "hunk_deco", "commit_deco", "mc_ours_deco", "mc_theirs_deco"}:
        info.kind = "deco"
    elif info.text == "" and info.gutter == "":
        info.kind = "blank"
    else:
        info.kind = "other"
    return info


def observe(out):
    return [observe_row(r) for r in term.decode(out)]
