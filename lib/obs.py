"""Row observers built on the terminal model and the reserved styles."""
import term
from lattice import classify_style, R, RN

MINUS = {"minus", "minus_non_emph", "minus_emph", "minus_empty"}
PLUS = {"plus", "plus_non_emph", "plus_emph", "plus_empty"}
LN = {"ln_minus", "ln_zero", "ln_plus", "ln_left", "ln_right"}
HEADER_KINDS = ("file", "hunk", "commit")


class RowInfo(object):
    __slots__ = ("kind", "text", "gutter", "classes", "row", "exact", "gutter_runs", "body_runs")


def bg_class(bg):
    if bg is not None and bg[0] == "i":
        return RN.get(bg[1])
    return None


def _gutter_kind(gutter_runs):
    has = {}
    for t, c in gutter_runs:
        if c in ("ln_minus", "ln_zero", "ln_plus"):
            has[c] = has.get(c, False) or any(ch.isdigit() for ch in t)
    if has.get("ln_zero"):
        return "zero"
    if has.get("ln_minus") and not has.get("ln_plus"):
        return "minus"
    if has.get("ln_plus") and not has.get("ln_minus"):
        return "plus"
    return None


def observe_row(row):
    """Classify one decoded row of unified-view output.

    kind: 'minus' | 'plus' | 'zero' | 'file' | 'hunk' | 'commit' | 'deco' | 'blank' | 'other'
    text: visible text of the row without the line-number gutter
    exact: True when the row is terminated by an erase-to-end-of-line (no space padding), so the
           text can be compared exactly; otherwise trailing blanks are padding.
    """
    info = RowInfo()
    info.row = row
    runs = [(t, classify_style(st)) for t, st in row.runs if t != ""]
    i = 0
    while i < len(runs) and runs[i][1] in LN:
        i += 1
    info.gutter_runs = runs[:i]
    info.body_runs = runs[i:]
    info.gutter = "".join(t for t, _ in runs[:i])
    info.text = "".join(t for t, _ in runs[i:])
    classes = set(c for _, c in runs[i:])
    for _, bg in row.erase:
        c = bg_class(bg)
        if c:
            classes.add(c)
    info.classes = classes
    info.exact = bool(row.erase)
    if classes & MINUS and not classes & PLUS:
        info.kind = "minus"
    elif classes & PLUS and not classes & MINUS:
        info.kind = "plus"
    elif classes & MINUS and classes & PLUS:
        info.kind = "mixed"
    elif "zero" in classes:
        info.kind = "zero"
    elif classes and classes <= {"ws_error", None} and "ws_error" in classes:
        info.kind = "plus"      # an added line consisting of whitespace only
    elif "file" in classes:
        info.kind = "file"
    elif classes & {"hunk", "hunk_file", "hunk_ln"}:
        info.kind = "hunk"
    elif "commit" in classes:
        info.kind = "commit"
    elif classes & {"mc_ours", "mc_theirs"}:
        info.kind = "mcheader"
    elif classes and classes <= {"file_deco", "hunk_deco", "commit_deco", "mc_ours_deco",
                                 "mc_theirs_deco", None} and \
            classes & {"file_deco", "hunk_deco", "commit_deco", "mc_ours_deco", "mc_theirs_deco"}:
        info.kind = "deco"
    elif info.text == "" and info.gutter == "":
        info.kind = "blank"
    elif info.gutter_runs and not (classes - {None}) and info.text.strip(" ") == "" and \
            _gutter_kind(info.gutter_runs):
        # an empty hunk line under line numbers with nothing padding or filling the row: only the
        # number fields tell what it is
        info.kind = _gutter_kind(info.gutter_runs)
    else:
        info.kind = "other"
    return info


def observe(out):
    return [observe_row(r) for r in term.decode(out)]


# ---------------------------------------------------------------------------------------------
# side-by-side rows

class SbsRow(object):
    __slots__ = ("left", "right", "row", "split_by")


class Panel(object):
    """one panel of a side-by-side row: number = text of the line-number field belonging to the
    panel's own file ('' when blank), body runs [(text, class, style)], kind"""
    __slots__ = ("gutter", "number", "numclass", "body", "text", "kind", "classes")


def _panel(runs, side):
    p = Panel()
    i = 0
    gut = []
    while i < len(runs) and runs[i][1] in LN:
        gut.append(runs[i])
        i += 1
    p.gutter = gut
    p.number = ""
    p.numclass = None
    for t, c, st in gut:
        if c in ("ln_minus", "ln_plus", "ln_zero"):
            if t.strip(" ") != "" or p.numclass is None:
                p.number = t.strip(" ")
                p.numclass = c
    p.body = runs[i:]
    p.text = "".join(t for t, _, _ in p.body)
    cl = set(c for t, c, _ in p.body if t != "")
    p.classes = cl
    if cl & MINUS:
        p.kind = "minus"
    elif cl & PLUS:
        p.kind = "plus"
    elif "zero" in cl:
        p.kind = "zero"
    elif "ws_error" in cl:
        p.kind = "plus"         # an added line consisting of whitespace only
    elif p.text.strip(" ") == "":
        p.kind = "empty"
    else:
        p.kind = "other"
    return p


def observe_sbs_row(row):
    """Split a decoded side-by-side row into its two panels at the first cell carrying the
    right-gutter style (reserved ln_right). Returns None if the row has no such cell (a header
    or decoration row)."""
    runs = [(t, classify_style(st), st) for t, st in row.runs if t != ""]
    # erase-to-eol belongs to the right panel
    # the right panel starts at the first gutter-styled cell that follows left-panel content
    k = None
    seen_body = False
    if not any(c == "ln_right" for _, c, _ in runs):
        return None
    for i, (t, c, st) in enumerate(runs):
        if c in LN:
            if seen_body:
                k = i
                break
        else:
            seen_body = True
    if k is None:
        for i, (t, c, st) in enumerate(runs):
            if c == "ln_right":
                k = i
                break
    if k is None:
        return None
    r = SbsRow()
    r.row = row
    left_runs = runs[:k]
    # the odd-width centre space (default style) before the right gutter is not panel content
    r.left = _panel(left_runs, "left")
    r.right = _panel(runs[k:], "right")
    for _, bg in row.erase:
        c = bg_class(bg)
        if c in PLUS and r.right.kind in ("empty", "other"):
            r.right.kind = "plus"
        elif c in MINUS and r.right.kind in ("empty",):
            r.right.kind = "minus"
    r.split_by = "ln_right"
    return r
