"""./check <ID> --replay <file>: re-execute a recorded counterexample without the explorer, through
the in-process driver and through the plain command line, and print what a reader needs."""
import json
import sys

import build
import term
from driver import Driver, run_cli, Rejected


def replay(prop, path):
    build.ensure_built()
    j = json.load(open(path))
    print("property   :", j.get("property", prop))
    print("class      :", j.get("class"))
    print("message    :", j.get("message"))
    print("config     :", j.get("config"))
    args = j.get("args") or []
    lines = j.get("input_lines_latin1")
    caller = j.get("caller")
    pty = tuple(j["pty"]) if j.get("pty") else None
    print("args       :", " ".join(repr(a) for a in args))
    if j.get("extra"):
        print("extra      :", json.dumps(j["extra"], ensure_ascii=False)[:1000])
    if lines is None or not args or any(a.startswith("--config=<") for a in args):
        print("(no replayable input recorded for this class of violation)")
        return 0
    data = b"".join(l.encode("latin-1") + b"\n" for l in lines)
    print("input      :")
    for l in lines:
        print("   | " + l.encode("latin-1").decode("utf-8", "replace"))
    d = Driver(caller=caller, pty=pty)
    try:
        cid = d.mkconfig(args, j.get("env") or None)
        r = d.render1(cid, data, trace=True)
        print("driver     : panic=%r ioerr=%r, %d bytes" % (r.panic, r.ioerr, len(r.out)))
        for row in term.decode(r.out):
            print("   > " + row.text)
    except Rejected as e:
        print("driver     : option set rejected: %s" % e)
    except Exception as e:
        print("driver     : %s: %s" % (type(e).__name__, e))
    finally:
        d.shutdown()
    try:
        st, out, err = run_cli(args, data, caller=caller, pty=pty)
        print("cli        : exit %d, %d bytes on stdout, stderr: %s" % (st, len(out), err.decode("utf-8", "replace")[-300:]))
    except Exception as e:
        print("cli        : %s: %s" % (type(e).__name__, e))
    print("expected   :", j.get("expected"))
    print("observed   :", j.get("observed"))
    print("reproduce  : printf '%%s\\n' %s | delta %s" % (" ".join(repr(l) for l in lines[:12]), " ".join(repr(a) for a in args if "style" not in a)))
    return 0
